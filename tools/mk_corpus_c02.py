import json, os, sys
import numpy as np
sys.path.insert(0, os.path.dirname(os.path.dirname(os.path.abspath(__file__))))
from cvh.ir import enc
c16 = np.complex128
H = np.array([[2, 1 + 2j], [1 - 2j, 3]], dtype=c16)
def case(tree, tower):
    return {"tree": tree, "tower": tower, "xl": enc(np.array([1 + 1j, 2], dtype=c16)), "Xl": enc(np.array([[1, 0], [2, 1j]], dtype=c16)),
            "y": enc(np.array([1, 1j], dtype=c16))}
C = {
 "transpose_complex_psd_matmat": case({"k": "ann", "a": "PSD", "ch": [{"k": "matmat", "a": enc(H @ H.conj().T + np.eye(2))}]}, "TH"),
}
out = os.path.join(os.path.dirname(os.path.dirname(os.path.abspath(__file__))), "corpus")
for name, c in C.items():
    json.dump({"property": "C02", "note": "regression input of a defect fixed in /repo", "case": c}, open(os.path.join(out, f"C02_{name}.json"), "w"), indent=1, sort_keys=True)
