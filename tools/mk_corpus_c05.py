import json, os, sys
import numpy as np
sys.path.insert(0, os.path.dirname(os.path.dirname(os.path.abspath(__file__))))
from cvh.ir import enc
root = os.path.dirname(os.path.dirname(os.path.abspath(__file__)))
f8, c16 = np.float64, np.complex128
Q = {"k": "ann", "a": "Stiefel", "ch": [{"k": "matmat", "a": enc(np.array([[1., 0.], [0., 1.], [0., 0.]]))}]}
Cx = {"k": "matmat", "a": enc(np.array([[1, 1j], [0, 1]], dtype=c16))}
H3 = {"k": "ann", "a": "SelfAdjoint", "ch": [{"k": "dense", "a": enc(np.array([[2., 1., 0.], [1., 3., 1.], [0., 1., 4.]]))}]}
C = {
 "stiefel_transpose": {"mode": "tree", "tree": {"k": "T", "ch": [Q]}, "ann": "PSD"},
 "stiefel_gram_AH": {"mode": "tree", "tree": {"k": "gram", "form": "AH", "ch": [Q]}, "ann": "PSD"},
 "complex_AT_A": {"mode": "tree", "tree": {"k": "gram", "form": "TA", "ch": [Cx]}, "ann": "SelfAdjoint"},
 "lanczos_truncated_basis": {"mode": "routine", "routine": "lanczos", "seed": 1, "tree": H3, "max_iters": 2},
 "lanczos_identity_alias": {"mode": "routine", "routine": "lanczos", "seed": 2, "tree": {"k": "eye", "n": 3, "dt": "f8"}, "max_iters": 3},
 "svd_dense_tall": {"mode": "routine", "routine": "svd", "seed": 1, "tree": {"k": "dense", "a": enc(np.array([[2., 1.], [0., 3.], [1., 1.]]))}, "k": 2, "alg": "DenseSVD"},
 "svd_lanczos_truncated": {"mode": "routine", "routine": "svd", "seed": 1, "tree": {"k": "dense", "a": enc(np.array([[4., 1., 0.], [1., 3., 1.], [0., 1., 1.]]))}, "k": 1, "alg": "Lanczos"},
 "eig_diagonal_k1": {"mode": "routine", "routine": "eig", "seed": 1, "tree": {"k": "diag", "d": enc(np.array([3., -1., 2.]))}, "k": 1, "which": "LM", "alg": "Eig"},
 "eig_identity_k1": {"mode": "routine", "routine": "eig", "seed": 1, "tree": {"k": "eye", "n": 3, "dt": "f8"}, "k": 2, "which": "SM", "alg": "omitted"},
 "eig_triangular": {"mode": "routine", "routine": "eig", "seed": 1, "tree": {"k": "tri", "a": enc(np.array([[1., 2., 1.], [0., 2., 1.], [0., 0., 3.]])), "lower": False}, "k": 3, "which": "LM", "alg": "omitted"},
}
for name, c in C.items():
    json.dump({"property": "C05", "note": "regression input of a defect fixed in /repo", "case": c}, open(os.path.join(root, "corpus", f"C05_{name}.json"), "w"), indent=1, sort_keys=True)
F = {
 "C05_scalar": {"mode": "tree", "tree": {"k": "scale", "c": {"t": "int", "v": -2}, "side": "l", "ch": [{"k": "eye", "n": 2, "dt": "f8"}]}, "ann": "SelfAdjoint"},
 "C05_arnoldi_stiefel": {"mode": "routine", "routine": "arnoldi", "seed": 1, "tree": {"k": "dense", "a": enc(np.array([[3., 1.], [0., 2.]]))}, "max_iters": 3},
}
for name, c in F.items():
    json.dump({"property": "C05", "note": "open finding", "case": c}, open(os.path.join(root, "findings", f"{name}.json"), "w"), indent=1, sort_keys=True)
