"""Copies the sub-agents' deliveries (patch, demonstration, notes) into seeded/<id>/ and writes meta.json from the
evaluation results (tools/eval_seeded.sh output lines collected in a .jsonl file).
usage: tools/mk_seeded.py /tmp/seed /tmp/seed/results.jsonl [/tmp/seed/results_round1.jsonl]"""
import json, os, re, shutil, sys
ROOT = os.path.dirname(os.path.dirname(os.path.abspath(__file__)))
src, res_path = sys.argv[1], sys.argv[2]
offset = int(os.environ.get("SEEDED_TAG_OFFSET", "0"))  # round 2 deliveries are stored as <PROP>-3 / <PROP>-4
first = {}
if len(sys.argv) > 3:
    for l in open(sys.argv[3]):
        r = json.loads(l)
        first[r["tag"]] = r["res"]
for l in open(res_path):
    r = json.loads(l)
    tag, res = r["tag"], r["res"]
    prop, k = tag.split("-")
    k = str(int(k) - offset)
    d = os.path.join(src, prop, "_out")
    dst = os.path.join(ROOT, "seeded", tag)
    os.makedirs(dst, exist_ok=True)
    shutil.copy(os.path.join(d, f"patch{k}.diff"), os.path.join(dst, "patch.diff"))
    shutil.copy(os.path.join(d, f"demo{k}.py"), os.path.join(dst, "demo.py"))
    notes = open(os.path.join(d, f"notes{k}.md")).read()
    shutil.copy(os.path.join(d, f"notes{k}.md"), os.path.join(dst, "notes.md"))
    title = notes.strip().splitlines()[0].lstrip("# ").strip()
    m = re.search(r"(?is)(needed to manifest|needs to manifest|what it needs|needs|manifests? only|trigger)[^:\n]*:?\s*(.+?)(?:\n- |\n\n|\Z)", notes)
    needs = re.sub(r"\s+", " ", m.group(2)).strip()[:420] if m else title
    chk = res["checks"].get(prop, {})
    caught = chk.get("rc") == 1
    meta = {
        "property": prop,
        "title": title,
        "needs": needs.replace("|", "/"),
        "confirmed": {"patch_applies_to_HEAD": True, "existing_tests_passed": res.get("tests_passed"),
                      "demo_exit_on_changed_tree": res.get("demo_rc_changed"), "demo_exit_on_unchanged_tree": res.get("demo_rc_unchanged")},
        "what_i_ran": "tools/eval_seeded.sh: fresh `git worktree` of /repo HEAD under /tmp, `git apply patch.diff`, the repo's pytest command "
                      "(130 passed required), demo.py against the changed worktree (must exit 1) and against /repo (must exit 0), then "
                      f"`VERIF_COLA_PATH=<worktree> ./check {prop} --tier quick`; worktree removed afterwards. (The patch was applied to a scratch "
                      "worktree instead of /repo itself because background runs were using /repo at the same time.)",
        "caught_by": (prop + " quick") if caught else "NOT caught",
        "how": chk.get("sig", "").strip(";").replace("|", " / "),
    }
    if tag in first:
        c1 = first[tag]["checks"].get(prop, {})
        meta["first_evaluation"] = "caught" if c1.get("rc") == 1 else "missed (the check was strengthened afterwards, see DESIGN.md section 8)"
    json.dump(meta, open(os.path.join(dst, "meta.json"), "w"), indent=1, sort_keys=True)
print("seeded entries:", len(os.listdir(os.path.join(ROOT, "seeded"))))
