import json, os, sys
import numpy as np
sys.path.insert(0, os.path.dirname(os.path.dirname(os.path.abspath(__file__))))
from cvh.ir import enc
root = os.path.dirname(os.path.dirname(os.path.abspath(__file__)))
def dense(a): return {"k": "dense", "a": enc(np.array(a, dtype=np.float64))}
C = {
 "rdiv_scalar_over_operator": {"tree": {"k": "rdiv", "c": {"t": "int", "v": 3}, "ch": [dense([[2., 1.], [0., 4.]])]}, "x": enc(np.array([1., 2.]))},
 "kronsum_nonsquare_rejected": {"tree": {"k": "kronsum", "via": "fn", "ch": [dense([[1., 2.]]), dense([[1.]])]}, "mismatch": "kronsum"},
}
for name, c in C.items():
    json.dump({"property": "C03", "note": "regression input of a defect fixed in /repo", "case": c}, open(os.path.join(root, "corpus", f"C03_{name}.json"), "w"), indent=1, sort_keys=True)
