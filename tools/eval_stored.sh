#!/bin/bash
# usage: eval_stored.sh OUT.jsonl SEED tag...   re-runs stored seeded changes against the current checks (no pytest)
out=$1; seed=$2; shift 2
printf "%s\n" "$@" | xargs -P 5 -I{} bash -c 't={}; p=${t%-*}; r=$(cd /verif && VERIF_SEED='$seed' SKIP_TESTS=1 tools/eval_seeded.sh $p seeded/$t/patch.diff seeded/$t/demo.py 2>/dev/null | tail -1); echo "{\"tag\":\"$t\",\"seed\":'$seed',\"res\":$r}" >> '$out
