#!/bin/bash
# tools/eval_seeded.sh <PROP> <patch.diff> <demo.py> [extra check ids...]
# Confirms a seeded change (applies cleanly, 130 tests still pass, demo fails with / passes without), then runs the
# property's quick check (and optional further checks) against the changed copy. Prints a JSON summary line.
prop=$1; patch=$(readlink -f $2); demo=$(readlink -f $3); shift 3
wt=/tmp/seedeval-$prop-$$
git -C /repo worktree add -q $wt HEAD >/dev/null 2>&1 || { echo '{"error":"worktree"}'; exit 2; }
cleanup() { git -C /repo worktree remove --force $wt >/dev/null 2>&1; rm -f /tmp/seedeval_*.$$.*; }
trap cleanup EXIT
if ! git -C $wt apply $patch 2>/tmp/seedeval_apply.$$.err; then echo "{\"error\":\"patch does not apply: $(head -c 200 /tmp/seedeval_apply.$$.err | tr '\n\"' '  ')\"}"; exit 3; fi
[ -n "$SKIP_TESTS" ] && passed="skipped" || passed=$(cd $wt && /venv/bin/python -m pytest -q -p no:cacheprovider --timeout=900 --continue-on-collection-errors 2>&1 | tail -1 | grep -o '[0-9]* passed' | grep -o '[0-9]*')
timeout 600 /venv/bin/python $demo $wt >/tmp/seedeval_demo_changed.$$.out 2>&1; rc_changed=$?
timeout 600 /venv/bin/python $demo /repo >/tmp/seedeval_demo_orig.$$.out 2>&1; rc_orig=$?
results=""
for id in $prop "$@"; do
  out=$(cd /verif && VERIF_COLA_PATH=$wt timeout 1500 ./check $id --tier quick 2>&1); rc=$?
  sig=$(echo "$out" | grep VIOLATION | head -2 | sed 's/.*# //' | tr '\n' ';' | tr '"' "'")
  results="$results\"$id\":{\"rc\":$rc,\"sig\":\"$sig\"},"
done
echo "{\"property\":\"$prop\",\"tests_passed\":\"$passed\",\"demo_rc_changed\":$rc_changed,\"demo_rc_unchanged\":$rc_orig,\"checks\":{${results%,}}}"
