#!/bin/bash
# usage: recheck.sh PROP k [seed]  -> applies patch in scratch worktree and runs quick check
prop=$1; k=$2; seed=${3:-1}
wt=/tmp/recheck-$prop-$k-$$
git -C /repo worktree add -q $wt HEAD >/dev/null 2>&1
git -C $wt apply /tmp/seed6/$prop/_out/patch$k.diff || echo PATCH-FAILED
out=$(cd /verif && VERIF_SEED=$seed VERIF_COLA_PATH=$wt timeout 1500 ./check $prop --tier quick 2>&1); rc=$?
echo "$prop-$((10+k)) seed=$seed rc=$rc $(echo "$out" | grep VIOLATION | head -2 | sed 's/.*# //' | tr '\n' ';')"
git -C /repo worktree remove --force $wt
