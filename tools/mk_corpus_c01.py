"""Writes the hand-minimised regression inputs for the C01 defects fixed in /repo (run once; outputs are committed)."""
import json, os, sys
import numpy as np
sys.path.insert(0, os.path.dirname(os.path.dirname(os.path.abspath(__file__))))
from cvh.ir import enc

f4, f8, c8, c16 = np.float32, np.float64, np.complex64, np.complex128
def dense(a, dt=f8): return {"k": "dense", "a": enc(np.array(a, dtype=dt))}
def vec(n, dt=f8): return enc((np.arange(n) % 3 + 1).astype(dt) * (1 + (1j if np.dtype(dt).kind == "c" else 0)))
def mat(n, k=2, dt=f8): return enc(((np.arange(n * k).reshape(n, k) % 5) - 2).astype(dt) * (1 + (1j if np.dtype(dt).kind == "c" else 0)))
def case(tree, n, xdt=f8, Xdt=f8): return {"tree": tree, "x": vec(n, xdt), "X": mat(n, 2, Xdt)}

C = {}
C["kernel_nonsquare"] = case({"k": "kernel", "x1": enc(np.array([[1.], [2.], [0.]])), "x2": enc(np.array([[1.], [-1.]])), "fn": "dot1", "bs1": 1, "bs2": 1}, 2)
C["kernel_complex_operand"] = case({"k": "kernel", "x1": enc(np.array([[1.], [2.]], dtype=c16)), "x2": enc(np.array([[1.], [-1.]], dtype=c16)), "fn": "dot", "bs1": 1, "bs2": 2}, 2, f8, f4)
C["sparse_unsorted_columns"] = case({"k": "sparse", "data": enc(np.array([3., 5., -1.])), "rows": [0, 0, 1], "cols": [1, 0, 0], "shape": [2, 2]}, 2)
C["concat_axis0_unequal_rows"] = case({"k": "cat", "axis": 0, "ch": [dense([[1., 2.]]), dense([[3., 4.], [5., 6.]])]}, 2)
C["concat_axis1"] = case({"k": "cat", "axis": 1, "ch": [dense([[1., 2.], [0., 1.]]), dense([[3.], [4.]])]}, 3)
C["concat_dtype"] = case({"k": "cat", "axis": 0, "ch": [dense([[1., 2.]], f4), dense([[3., 4.]], c16)]}, 2)
C["sum_dtype"] = case({"k": "sum", "via": "op", "ch": [dense([[1., 2.], [3., 4.]], f4), dense([[1j, 2.], [3., 4.]], c16)]}, 2, f4, f4)
C["slice_index_array"] = case({"k": "slice", "ch": [dense(np.arange(12.).reshape(3, 4))], "s0": {"ix": [2, 0]}, "s1": {"ix": [1, 3, 0]}}, 3)
C["slice_complex_operand"] = case({"k": "slice", "ch": [dense(np.arange(12.).reshape(3, 4))], "s0": {"sl": [0, 2, 1]}, "s1": {"sl": [1, 4, 2]}}, 2, c16, c8)
C["slice_mixed_index_kinds"] = case({"k": "slice", "ch": [dense(np.arange(16.).reshape(4, 4))], "s0": {"sl": [0, 2, 1]}, "s1": {"ix": [1, 3]}}, 2)
C["slice_unequal_index_arrays"] = case({"k": "slice", "ch": [dense(np.arange(16.).reshape(4, 4))], "s0": {"ix": [0, 2, 3]}, "s1": {"ix": [1, 3]}}, 2)
C["kronsum_complex_real_operand"] = case({"k": "kronsum", "via": "fn", "ch": [dense([[1j, 2.], [3., 4.]], c16), dense([[1., 0.], [2., 1.]], f8)]}, 4, f8, f4)
C["scale_python_complex"] = case({"k": "scale", "c": {"t": "complex", "v": [1, 2]}, "side": "l", "ch": [dense([[1., 2.], [3., 4.]], f4)]}, 2)
C["scale_numpy_complex"] = case({"k": "scale", "c": {"t": "c8", "v": [1, 2]}, "side": "r", "ch": [dense([[1., 2.], [3., 4.]], f8)]}, 2)
C["scale_smul_complex"] = case({"k": "scale", "c": {"t": "a0c16", "v": [0, 1]}, "side": "l", "ch": [{"k": "smul", "c": {"t": "float", "v": 2.0}, "n": 2, "dt": "f4"}]}, 2)
C["prod_identity_right"] = case({"k": "prod", "via": "op", "ch": [dense([[1., 2.], [3., 4.]]), {"k": "eye", "n": 2, "dt": "f8"}]}, 2)
C["prod_identity_left"] = case({"k": "prod", "via": "op", "ch": [{"k": "eye", "n": 2, "dt": "f8"}, dense([[1., 2.], [3., 4.]])]}, 2)
C["prod_identity_identity"] = case({"k": "prod", "via": "op", "ch": [{"k": "eye", "n": 2, "dt": "f8"}, {"k": "eye", "n": 2, "dt": "f8"}]}, 2)
C["prod_identity_wider_dtype"] = case({"k": "prod", "via": "op", "ch": [dense([[1., 2.], [3., 4.]], f4), {"k": "eye", "n": 2, "dt": "c16"}]}, 2, f4, f4)
C["identity_dtype"] = case({"k": "eye", "n": 2, "dt": "c16"}, 2, f8, f4)
C["permutation_dtype"] = case({"k": "perm", "p": [1, 0, 2], "dt": "f8"}, 3, f4, f4)
C["fft_dtype"] = case({"k": "fft", "n": 4, "dt": "c16"}, 4, f4, c8)
C["kron_of_kroneckers"] = case({"k": "kron", "via": "fn", "ch": [{"k": "kron", "via": "ctor", "ch": [dense([[1., 2.]]), dense([[1.], [3.]])]}, {"k": "kron", "via": "ctor", "ch": [dense([[2.]]), dense([[1., -1.]])]}]}, 4)
C["kronsum_of_kronsums"] = case({"k": "kronsum", "via": "fn", "ch": [{"k": "kronsum", "via": "ctor", "ch": [dense([[1.]]), dense([[1., 2.], [3., 4.]])]}, {"k": "kronsum", "via": "ctor", "ch": [dense([[2.]]), dense([[0., 1.], [1., 0.]])]}]}, 4)

out = os.path.join(os.path.dirname(os.path.dirname(os.path.abspath(__file__))), "corpus")
os.makedirs(out, exist_ok=True)
for name, c in C.items():
    with open(os.path.join(out, f"C01_{name}.json"), "w") as fh:
        json.dump({"property": "C01", "note": "regression input of a defect fixed in /repo (see known_findings.json)", "case": c}, fh, indent=1, sort_keys=True)
print(len(C), "corpus files written")
