import json, sys, glob, jsonschema
m=json.load(open('/verif/MANIFEST.json')); jsonschema.validate(m, json.load(open('/root/.vp/MANIFEST.schema.json')))
S=json.load(open('/root/.vp/EVIDENCE.schema.json'))
for f in sorted(glob.glob('/verif/evidence/*.json')):
    jsonschema.validate(json.load(open(f)), S)
print("manifest + evidence valid:", len(glob.glob('/verif/evidence/*.json')))
