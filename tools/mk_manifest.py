"""Regenerates MANIFEST.json from the property modules that exist under cvh/props."""
import json, os, sys
ROOT = os.path.dirname(os.path.dirname(os.path.abspath(__file__)))
sys.path.insert(0, ROOT)
META = {
 "C01": ("differential testing against a NumPy reference interpreter over generated operator-expression trees (Hypothesis)", "4/C01"),
 "C02": ("differential testing of .T/.H towers and left products against the reference interpreter (Hypothesis)", "4/C02"),
 "C03": ("generated algebra programs evaluated by cola and by NumPy on reference matrices; mismatched shapes must raise (Hypothesis)", "4/C03"),
 "C04": ("exhaustive enumeration of the (function, kind(s), annotation, algorithm, optional-args) lattice read from the live plum registry", "4/C04"),
 "C05": ("generated trees with true declarations; every reported annotation tested on the dense reference matrix of every node (Hypothesis)", "4/C05"),
 "C06": ("generated well-conditioned invertible trees x algorithms; backward-error / inverse-matrix oracle (Hypothesis)", "4/C06"),
 "C07": ("generated non-singular trees x algorithm pairs; oracle numpy.linalg.slogdet in float64 plus metamorphic relations (Hypothesis)", "4/C07"),
 "C08": ("generated square trees x offsets x sizes around the probing block; oracle numpy.diag of the reference matrix; structural-vs-probing differential (Hypothesis)", "4/C08"),
 "C09": ("generated controlled-spectrum operators x functions x algorithms; oracle scipy Schur-based matrix functions plus metamorphic relations (Hypothesis)", "4/C09"),
 "C10": ("generated well-separated spectra x k x which x algorithm; validity predicate on eigenpairs and selection against numpy eigvals (Hypothesis)", "4/C10"),
 "C11": ("generated PD / non-singular structured trees; validity predicate on factors (triangularity, permutation, reconstruction, preserved structure) (Hypothesis)", "4/C11"),
 "C12": ("generated HPD systems x preconditioners x tolerances x caps; dense Krylov-optimality oracle and stopping-contract predicates with a product-counting wrapper (Hypothesis)", "4/C12"),
 "C13": ("generated invertible systems x m; dense least-squares minimum over the Krylov space as oracle, monotonicity chain, product counting (Hypothesis)", "4/C13"),
 "C14": ("generated Hermitian operators x start vectors x caps; validity predicates of the Lanczos factorisation against the dense matrix (Hypothesis)", "4/C14"),
 "C15": ("generated square operators x start vectors x caps; validity predicates of the Arnoldi relation against the dense matrix (Hypothesis)", "4/C15"),
 "C16": ("generated m x n operators x k x algorithms; SVD validity predicate and best-rank-k / minimum-norm least-squares oracle from numpy (Hypothesis)", "4/C16"),
 "C17": ("stateful interleaving of keyed cola calls with numpy.random use (RuleBasedStateMachine), bit-identity and global-state invariants, closed-form-variance z-test for unbiasedness", "4/C17"),
 "C18": ("Hypothesis RuleBasedStateMachine over a pool of operators and caller arrays with byte-level model; exhaustive short histories; fresh-interpreter instantiation orders; flatten/unflatten round trip", "4/C18"),
 "C19": ("generated large structured operators x entry points; tracemalloc peak bounded by factor storage, with a dense control measurement (Hypothesis)", "4/C19"),
 "C20": ("generated index expressions over operator trees; oracle = same indexing on the reference matrix (Hypothesis)", "4/C20"),
}
NOT_BUILT = "check not built yet in this round (planned in DESIGN.md section 4); not a claim that the technique cannot apply"
checks, na = [], []
for pid in sorted(META):
    tech, ref = META[pid]
    path = os.path.join(ROOT, "cvh", "props", pid.lower() + ".py")
    if not os.path.exists(path):
        na.append({"property_id": pid, "reason": NOT_BUILT})
        continue
    mod = {}
    src = open(path).read()
    level = "exploration"
    checks.append({
        "property_id": pid,
        "quick_cmd": f"./check {pid} --tier quick",
        "thorough_cmd": f"./check {pid} --tier thorough",
        "evidence_file": f"/verif/evidence/{pid}.json",
        "replay_cmd_template": f"./check {pid} --replay {{path}}",
        "engine": "cvh",
        "level_claimed": {"category": level,
                          "text": "Generated-input search with an explicit, cola-independent oracle; a quiet run means no counter-example among the reported number of generated cases at the stated sizes. It never establishes absence.",
                          "design_ref": "DESIGN.md " + ref},
        "level_note": "Trusted base: NumPy/SciPy reference computations, the ~80-line NumPy backend shim (self-tested at every run), the reference interpreter (self-tested), Hypothesis. NumPy backend only.",
        "technique": tech,
    })
man = {
 "version": 1,
 "setup_cmd": "./setup.sh",
 "hooks": {"guard": "COLA_VERIF", "enable": "no hooks are needed: checks import cola from /repo's working tree (sys.path) and install a harness-side NumPy backend shim; COLA_VERIF is reserved and unused",
           "baseline_off_cmd": "cd /repo && /venv/bin/python -m pytest -ra -q -p no:cacheprovider --timeout=900 --continue-on-collection-errors",
           "source_commits": [], "add_only": True},
 "engines": [{"name": "cvh", "path": "cvh/", "serves_properties": [c["property_id"] for c in checks],
              "kind_free_text": "property-based testing harness: Hypothesis strategies over an operator-expression IR, NumPy reference interpreter, sharded runner with replay and known-findings protocol"}],
 "checks": checks,
 "not_applicable": na,
 "notes": "Genuine defects repaired in /repo are listed in known_findings.json (fixed entries, with regression inputs under corpus/ that every check run replays); open findings print KNOWN-FINDING lines.",
}
json.dump(man, open(os.path.join(ROOT, "MANIFEST.json"), "w"), indent=1)
print("checks:", [c["property_id"] for c in checks], "not built:", [n["property_id"] for n in na])
