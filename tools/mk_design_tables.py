"""Fills the generated tables of DESIGN.md from known_findings.json and seeded/*/meta.json."""
import glob, json, os, re
ROOT = os.path.dirname(os.path.dirname(os.path.abspath(__file__)))
d = json.load(open(os.path.join(ROOT, "known_findings.json")))
doc = open(os.path.join(ROOT, "DESIGN.md")).read()


def put(doc, tag, body):
    a, b = f"<!-- {tag}-BEGIN -->", f"<!-- {tag}-END -->"
    i, j = doc.index(a) + len(a), doc.index(b)
    return doc[:i] + "\n" + body + "\n" + doc[j:]


rows = ["| property | commit(s) | what failed before the fix | regression inputs |", "|---|---|---|---|"]
for e in sorted(d["fixed"], key=lambda e: (e["property"], e["commit"])):
    rows.append(f"| {e['property']} | `{e['commit']}` | {e['what']} | {len(e['regression_inputs'])} |")
doc = put(doc, "FIXED-TABLE", "\n".join(rows))
rows = ["| id | property | what | signature (sub / site / manifestation) | generators avoid |", "|---|---|---|---|---|"]
for f in d["findings"]:
    m = f.get("match", {})
    rows.append(f"| {f['id']} | {f['property']} | {f['what']} | `{m.get('sub','*')}` / `{m.get('site','*')}` / `{m.get('man','*')}` | {', '.join(f.get('avoid', [])) or '-'} |")
doc = put(doc, "OPEN-TABLE", "\n".join(rows))
rows = ["| seeded change | property | what it needs to manifest | caught by (quick) | how |", "|---|---|---|---|---|"]
for p in sorted(glob.glob(os.path.join(ROOT, "seeded", "*", "meta.json"))):
    m = json.load(open(p))
    rows.append(f"| {os.path.basename(os.path.dirname(p))} | {m['property']} | {m['needs']} | {m.get('caught_by', '?')} | {m.get('how', '')} |")
if len(rows) == 2:
    rows.append("| (none recorded yet) | | | | |")
doc = put(doc, "SEEDED-TABLE", "\n".join(rows))
open(os.path.join(ROOT, "DESIGN.md"), "w").write(doc)
print("tables written")
