#!/bin/bash
# runs every registered check at the given tier (default quick) and reports exit codes
cd "$(dirname "$0")/.."
tier=${1:-quick}
for id in $(/venv/bin/python -c "import json;print(' '.join(c['property_id'] for c in json.load(open('MANIFEST.json'))['checks']))"); do
  out=$(./check $id --tier $tier 2>&1); rc=$?
  echo "$id rc=$rc $(echo "$out" | grep -E "^$id tier" | cut -c1-200)"
  echo "$out" | grep -E "VIOLATION|HARNESS" | head -5
done
