"""Maintains known_findings.json by hand-invoked commands (never at check run time).
  tools/kf.py fixed <prop> <commit> <what> -- corpus files...
  tools/kf.py open <id> <prop> <what> --replay findings/x.json --match sub=..,site=..,man=.. [--avoid a,b]
"""
import json, os, sys
ROOT = os.path.dirname(os.path.dirname(os.path.abspath(__file__)))
P = os.path.join(ROOT, "known_findings.json")
d = json.load(open(P)) if os.path.exists(P) else {"findings": [], "fixed": []}
a = sys.argv[1:]
if a[0] == "fixed":
    prop, commit, what = a[1], a[2], a[3]
    files = a[5:] if len(a) > 4 and a[4] == "--" else []
    line = f"fixed: property={prop} {commit} {what}"
    d["fixed"] = [e for e in d["fixed"] if not (e["property"] == prop and e["commit"] == commit)]
    d["fixed"].append({"property": prop, "commit": commit, "what": what, "line": line, "regression_inputs": files})
elif a[0] == "open":
    fid, prop, what = a[1], a[2], a[3]
    rest = a[4:]
    e = {"id": fid, "property": prop, "status": "open", "what": what, "match": {}, "avoid": []}
    i = 0
    while i < len(rest):
        if rest[i] == "--replay": e["replay"] = rest[i + 1]
        elif rest[i] == "--match":
            for kv in rest[i + 1].split(";;"):
                k, v = kv.split("=", 1); e["match"][k] = v
        elif rest[i] == "--avoid": e["avoid"] = rest[i + 1].split(",")
        i += 2
    d["findings"] = [f for f in d["findings"] if f["id"] != fid] + [e]
json.dump(d, open(P, "w"), indent=1, sort_keys=True)
print("ok", len(d["findings"]), "open/closed findings;", len(d["fixed"]), "fixed")
