import json, os, sys
import numpy as np
sys.path.insert(0, os.path.dirname(os.path.dirname(os.path.abspath(__file__))))
from cvh.ir import enc
root = os.path.dirname(os.path.dirname(os.path.abspath(__file__)))
def dense(a): return {"k": "dense", "a": enc(np.array(a, dtype=np.float64))}
W = dense(np.arange(6.).reshape(2, 3))
C = {
 "row_of_wide": {"tree": W, "idx": {"form": "i", "a": {"i": 1}}},
 "row_of_tall_slice": {"tree": {"k": "T", "ch": [W]}, "idx": {"form": "is", "a": {"i": -1}, "b": {"sl": [None, None, -1]}}},
 "listpair_non_dense": {"tree": {"k": "diag", "d": enc(np.array([1., 2., 3.]))}, "idx": {"form": "ll", "a": {"li": [0, 1]}, "b": {"li": [0, 2]}}},
 "listpair_transpose": {"tree": {"k": "T", "ch": [{"k": "matmat", "a": enc(np.arange(6.).reshape(2, 3))}]}, "idx": {"form": "ll", "a": {"li": [0, 2]}, "b": {"li": [1, 0]}}},
}
for name, c in C.items():
    json.dump({"property": "C20", "note": "regression input of a defect fixed in /repo", "case": c}, open(os.path.join(root, "corpus", f"C20_{name}.json"), "w"), indent=1, sort_keys=True)
F = {"tree": dense(np.arange(9.).reshape(3, 3) + 1), "idx": {"form": "ss", "a": {"sl": [None, None, None]}, "b": {"ix": [0, 0, 1]}},
     "X": enc(np.array([1., 2., 4.]))}
json.dump({"property": "C20", "note": "open finding F-C20-dupidx", "case": F}, open(os.path.join(root, "findings", "C20_dupidx.json"), "w"), indent=1, sort_keys=True)
