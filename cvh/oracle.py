"""Comparators and tolerance rules (DESIGN 3.4) plus exception bucketing and subtree blame."""
import os
import traceback

import numpy as np

EXACT_LIMIT = {np.dtype(np.float32): 2.0**22, np.dtype(np.complex64): 2.0**22,
               np.dtype(np.float64): 2.0**50, np.dtype(np.complex128): 2.0**50}


def eps_of(dt):
    dt = np.dtype(dt)
    if dt.kind in "fc":
        return float(np.finfo(dt).eps)
    return float(np.finfo(np.float64).eps)


def lower_eps(*dts):
    return max(eps_of(d) for d in dts)


def compare(y, yref, bound, exact, dts, factor=1e3, tiny=1e-30, eps=None):
    """None if y agrees with yref, else a short description.
    bound: elementwise |A||x| style magnitude bound (float64), same shape as yref.
    exact: integer-valued data -> demand equality when magnitudes are exactly representable."""
    y = np.asarray(y)
    if y.shape != yref.shape:
        return "shape", f"got {y.shape} expected {yref.shape}"
    if y.size == 0:
        return None
    if not np.all(np.isfinite(y)):
        return "nonfinite", f"{y.reshape(-1)[:6]}"
    bmax = float(np.max(bound)) if np.size(bound) else 0.0
    lim = min(EXACT_LIMIT.get(np.dtype(d), 2.0**50) for d in dts)
    if exact and bmax < lim:
        if np.array_equal(y, yref.astype(y.dtype) if y.dtype != yref.dtype else yref) or np.array_equal(y.astype(np.complex128), yref.astype(np.complex128)):
            return None
        err = np.abs(y.astype(np.complex128) - yref.astype(np.complex128))
        i = int(np.argmax(err))
        return "value", f"exact regime: max err {err.reshape(-1)[i]:.3g} at flat {i}: got {y.reshape(-1)[i]} expected {yref.reshape(-1)[i]}"
    eps = max(lower_eps(*dts), eps or 0.0, eps_of(y.dtype))
    err = np.abs(y.astype(np.complex128) - yref.astype(np.complex128))
    tol = factor * eps * (np.asarray(bound, dtype=np.float64) + 1e-300) + tiny
    # a global floor: rounding is relative to the largest intermediate, not to each entry
    tol = np.maximum(tol, factor * eps * bmax * 1e-3)
    bad = err > tol
    if np.any(bad):
        i = int(np.argmax(err / tol))
        return "value", f"max err {err.reshape(-1)[i]:.3g} (tol {np.reshape(tol, -1)[i]:.3g}) at flat {i}: got {y.reshape(-1)[i]} expected {yref.reshape(-1)[i]}"
    return None


def exc_bucket(e):
    """(type name, innermost cola frame 'file:function') for an exception raised inside cola."""
    tb = traceback.extract_tb(e.__traceback__)
    site = "?"
    for fr in tb:
        fn = fr.filename
        if os.sep + "cola" + os.sep in fn and "cvh" not in fn:
            site = f"{os.path.basename(fn)}:{fr.name}"
    return type(e).__name__, site


def exc_man(e):
    t, s = exc_bucket(e)
    return f"exception:{t}@{s}"


def blame(ir, fails_fn):
    """Smallest failing subtree: descend while some child subtree still fails stand-alone."""
    cur = ir
    while True:
        nxt = None
        for c in cur.get("ch", []):
            try:
                if fails_fn(c):
                    nxt = c
                    break
            except Exception:
                continue
        if nxt is None:
            return cur
        cur = nxt


def site_of(ir):
    k = ir["k"]
    if k == "ann":
        return f"ann:{ir['a']}"
    if k == "cat":
        return f"cat{ir['axis']}"
    ch = ir.get("ch", [])
    if k in ("T", "H", "nodisp", "neg", "scale", "div", "slice") and ch:
        return f"{k}({ch[0]['k']})"
    return k


def is_contract_refusal(e):
    """AssertionError with which a *selected rule* documents that it refuses the request (CG / Cholesky / Lanczos / Eigh
    on an operator not declared PSD / SelfAdjoint, PowerIteration with k != 1, ...). Anything else is not a refusal."""
    if not isinstance(e, AssertionError):
        return False
    msg = str(e)
    return any(s in msg for s in ("only valid for", "wrap in cola.", "Can't trace non square"))


import contextlib as _contextlib
import io as _io


@_contextlib.contextmanager
def quiet():
    """swallow what progress bars (pbar=True) write to stderr / stdout"""
    buf = _io.StringIO()
    with _contextlib.redirect_stderr(buf), _contextlib.redirect_stdout(buf):
        yield
