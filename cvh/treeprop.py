"""Shared helpers for the tree-based properties (C01, C02, C03, C05, C20, ...)."""
import numpy as np

from cvh import gen, ir as IR, oracle


def load_avoid(prop_id, opts, base=()):
    from cvh import runner
    avoid = set(base)
    for f in runner.load_findings(prop_id):
        if f.get("status") == "open":
            avoid.update(f.get("avoid", []))
    if "noavoid" in opts:
        avoid.clear()
    return avoid


def target_shape(g, maxn=8):
    mode = g.pick(["sq", "sq", "any", "any", "row", "col", "verywide"])
    if mode == "sq":
        n = g.integer(1, maxn)
        return n, n
    if mode == "row":
        return 1, g.integer(1, 12)
    if mode == "col":
        return g.integer(1, 12), 1
    if mode == "verywide":
        r = g.integer(1, 2)
        return r, g.integer(8 * r + 1, 8 * r + 8)
    return g.integer(1, maxn), g.integer(1, maxn)


class Checker:
    """Collects (sub, man, detail) failures for one tree evaluation."""
    def __init__(self, exact, teps):
        self.fails = []
        self.exact = exact
        self.teps = teps

    def add(self, sub, man, detail=""):
        self.fails.append((sub, man, str(detail)))

    def value(self, sub, fn, yref, bound, dts, expect_dt=None, exact=None, factor=1e3):
        try:
            y = fn()
        except Exception as e:
            self.add(sub, oracle.exc_man(e), e)
            return None
        if not isinstance(y, np.ndarray):
            if np.isscalar(y) or isinstance(y, np.generic):
                y = np.asarray(y)
            else:
                self.add(sub, "type", f"returned {type(y).__name__}")
                return None
        res = oracle.compare(y, yref, bound, self.exact if exact is None else exact, dts, eps=self.teps, factor=factor)
        if res is not None:
            self.add(sub, res[0], res[1])
        elif expect_dt is not None and y.dtype != expect_dt:
            self.add(sub, "dtype", f"result dtype {y.dtype} expected {expect_dt}")
        return y


def dense_bound(R):
    return R.Mabs + (0 if R.exact else 1) * np.max(R.Mabs, initial=0)


def default_vec(n, dt):
    dt = np.dtype(dt)
    return (np.arange(n) % 3 - 1).astype(dt) + (1j if dt.kind == "c" else 0)


def default_mat(n, k, dt, left=False):
    dt = np.dtype(dt)
    a = ((np.arange(n * k).reshape(n, k) % 5) - 2).astype(dt) + (1j if dt.kind == "c" else 0)
    return a.T.copy() if left else a


def tree_labels(tree, R):
    r, c = R.shape
    return ["kind:" + k for k in IR.kinds(tree)] + ["depth:%d" % IR.depth(tree), "shape:" + gen.shape_class(r, c),
                                                     "opdtype:" + IR.DTN[R.dtype]]


def report(out, tree, fails, fails_alone, refails):
    """Blame the smallest failing subtree, re-evaluate there, and register de-duplicated failures."""
    culprit = oracle.blame(tree, fails_alone)
    if culprit is not tree:
        cf = refails(culprit)
        if cf:
            fails = cf
    site = oracle.site_of(culprit)
    seen = set()
    for sub, man, detail in fails:
        if (sub, man) in seen:
            continue
        seen.add((sub, man))
        out.fail(sub, site, man, detail)


# ------------------------------------------------------------------ known-defect pattern detectors
def walk_ops(A, _seen=None):
    """All LinearOperator objects reachable from A through attributes / tuples / lists."""
    from cola.ops import LinearOperator
    if _seen is None:
        _seen = set()
    if id(A) in _seen:
        return
    _seen.add(id(A))
    yield A
    for v in vars(A).values():
        if isinstance(v, LinearOperator):
            yield from walk_ops(v, _seen)
        elif isinstance(v, (tuple, list)):
            for w in v:
                if isinstance(w, LinearOperator):
                    yield from walk_ops(w, _seen)


def scalar_invalidated_annotations(A, transparent_types=()):
    """Open finding F-C05-scalar: Product(ScalarMul c, X) inherits X's annotations whatever c is.
    Returns the set of annotation names that some node of A reports although its scalar factor
    invalidates them (SelfAdjoint needs real c, PSD real c >= 0, Unitary/Stiefel |c| = 1).
    transparent_types: operator classes through which the routine under test recurses structurally without reading
    annotations; a scalar multiple all of whose ancestors (and itself) are of these classes is not reported."""
    import cola
    from cola.ops import LinearOperator, Product, ScalarMul
    bad = set()
    transparent_types = tuple(transparent_types)

    def children(op):
        for v in vars(op).values():
            if isinstance(v, LinearOperator):
                yield v
            elif isinstance(v, (tuple, list)):
                for w in v:
                    if isinstance(w, LinearOperator):
                        yield w

    seen = set()

    def visit(op, exposed):
        if (id(op), exposed) in seen:
            return
        seen.add((id(op), exposed))
        here = exposed or not (transparent_types and isinstance(op, transparent_types))
        if isinstance(op, Product) and here:
            sc = [M for M in op.Ms if isinstance(M, ScalarMul)]
            rest = [M for M in op.Ms if not isinstance(M, ScalarMul)]
            if sc and len(rest) == 1:
                c = complex(np.prod([complex(M.c) for M in sc]))
                if op.isa(cola.SelfAdjoint) and c.imag != 0:
                    bad.add("SelfAdjoint")
                if op.isa(cola.PSD) and not (c.imag == 0 and c.real >= 0):
                    bad.add("PSD")
                if op.isa(cola.Stiefel) and abs(abs(c) - 1) > 1e-12:
                    bad.add("Unitary")
        for ch in children(op):
            visit(ch, here)

    visit(A, False)
    return bad


def contaminated_by_scalar(tree, names=("SelfAdjoint", ), transparent=()):
    """True if some scalar-multiple subtree of the IR (scale / neg / div / a product with a ScalarMul leaf), built
    stand-alone, reports one of `names` although its scalar invalidates it (open finding F-C05-scalar). Checked on the
    IR rather than on the final operator because combinators flatten products and short-cuts such as X.H -> X of a
    falsely SelfAdjoint X leave no trace in the built object.
    transparent: IR kinds through which the routine under test recurses rule by rule without reading annotations; a
    scalar multiple is ignored when it and all its ancestors are of these kinds (its false annotation is never read)."""
    from cvh import ir as IR
    names = set(names)
    transparent = set(transparent)

    def visit(node, exposed):
        k = node["k"]
        here = exposed or k not in transparent
        if here and k in ("scale", "neg", "div", "rdiv", "smul", "prod"):  # (a product may hold a scalar factor built by any child)
            try:
                sub = IR.build(node)
            except Exception:
                sub = None
            if sub is not None and hasattr(sub, "annotations") and scalar_invalidated_annotations(sub) & names:
                return True
        return any(visit(c, here) for c in node.get("ch", []))

    return visit(tree, False)
