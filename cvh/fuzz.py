"""Coverage-guided driver (Atheris / libFuzzer) for the SAME Hypothesis property a check module defines.

    python -m cvh.fuzz C03 --seconds 60 --stats OUT.json [--seed N] [--tier thorough]

libFuzzer mutates a byte string; Hypothesis' fuzz_one_input decodes it through the module's strategy into a
structured case; cola is imported under atheris.instrument_imports so that branch coverage of cola/ guides the
mutation. The semantic oracle is the module's check(): an unknown failure writes a replay file, prints the VIOLATION
line and exits 1. Statistics are flushed to --stats periodically (atexit handlers do not run under libFuzzer)."""
import argparse
import json
import os
import sys
import time

ROOT = os.path.dirname(os.path.dirname(os.path.abspath(__file__)))


def main():
    ap = argparse.ArgumentParser()
    ap.add_argument("prop")
    ap.add_argument("--seconds", type=int, default=60)
    ap.add_argument("--stats", required=True)
    ap.add_argument("--seed", type=int, default=1)
    ap.add_argument("--tier", default="thorough")
    ap.add_argument("--corpus", default=None)
    a = ap.parse_args()
    sys.path.insert(0, os.path.join(ROOT, ".deps"))
    cola_path = os.environ.get("VERIF_COLA_PATH", "/repo")
    sys.path.insert(0, cola_path)
    import atheris
    import warnings
    warnings.filterwarnings("ignore")
    with atheris.instrument_imports(include=["cola"]):
        import cola  # noqa: F401
    from cvh import runner
    runner.setup_cola()
    from hypothesis import HealthCheck, given, settings
    prop_id = a.prop.upper()
    mod = runner.load_prop(prop_id)
    if hasattr(mod, "configure"):
        mod.configure(a.tier, {})
    open_findings = [f for f in runner.load_findings(prop_id) if f.get("status") == "open"]
    st = {"evaluations": 0, "nontrivial": set(), "excluded_known": 0, "inconclusive": 0, "t0": time.time(), "last": 0.0, "labels": {}}

    def flush(final=False):
        with open(a.stats, "w") as fh:
            json.dump({"evaluations": st["evaluations"], "distinct_nontrivial": len(st["nontrivial"]), "excluded_known": st["excluded_known"],
                       "inconclusive": st["inconclusive"], "wall_s": round(time.time() - st["t0"], 1), "final": final,
                       "labels": dict(sorted(st["labels"].items(), key=lambda kv: -kv[1])[:40])}, fh)

    strategy = mod.strategy(a.tier)

    @settings(deadline=None, database=None, suppress_health_check=list(HealthCheck))
    @given(strategy)
    def body(case):
        out = runner.run_case(mod, case)
        st["evaluations"] += 1
        st["inconclusive"] += out.inconclusive
        for l in out.labels:
            st["labels"][l] = st["labels"].get(l, 0) + 1
        if out.nontrivial:
            st["nontrivial"].add(runner.case_hash(case))
        unknown = []
        for f in out.failures:
            if runner.known_id(open_findings, f) is None:
                unknown.append(f)
            else:
                st["excluded_known"] += 1
        if unknown:
            path = runner.write_replay(prop_id, a.tier, a.seed, {"case": case, "failures": unknown}, tag="_fuzz")
            flush(True)
            print(f"VIOLATION property={prop_id} replay={path}   # {runner.sig(unknown[0])}", flush=True)
            os._exit(1)
        now = time.time()
        if now - st["last"] > 5:
            st["last"] = now
            flush()

    corpus = a.corpus or os.path.join("/tmp", f"cvh-fuzz-{prop_id}-{os.getpid()}")
    os.makedirs(corpus, exist_ok=True)
    argv = [sys.argv[0], corpus, f"-max_total_time={a.seconds}", f"-seed={a.seed}", "-print_final_stats=0", "-verbosity=0", "-max_len=4096"]
    flush()
    atheris.Setup(argv, body.hypothesis.fuzz_one_input)
    atheris.Fuzz()


if __name__ == "__main__":
    main()
