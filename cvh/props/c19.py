"""C19 - structured operators are never densified: cost stays proportional to the factors."""
import tracemalloc

import numpy as np
from hypothesis import strategies as st

from cvh import oracle

ID = "C19"
LEVEL = "exploration"
BUDGET = {"quick": 3200, "thorough": 40000}
WALL = {"quick": 280, "thorough": 3000}
MIN_CASES = {"quick": 300, "thorough": 3000}
RULE = ("Hypothesis draws a large structured operator (n in 1024..1300, so that a dense fallback still finishes in seconds and "
        "one n x n array is > 30x the bound): Kronecker of 2-4 positive-definite factors (sizes 4..36), KronSum of 2-3, BlockDiag "
        "with multiplicities (blocks 4..16, multiplicities up to 200), one nested in the other, and their sums / products with "
        "Diagonal, ScalarMul, Identity, Permutation, Tridiagonal; an operand with 1-2 columns; and an entry point: A @ x for "
        "every structure, and inv/solve, logdet, diag(k=0)/trace, exp/log/sqrt/isqrt/pow/apply_unary, cholesky/plu only on "
        "(function, kind) pairs that have a structural rule - each with and without the optional algorithm argument. Oracle "
        "(resource bound): tracemalloc peak during the call minus the baseline <= 16 x (operand bytes + result bytes + array "
        "bytes of the leaves + dense bytes of every maximal sub-block on which the function has no structural rule) + 256 KiB. "
        "A control measurement of A.to_dense() must register ~n^2*itemsize, otherwise the run is a harness error. Non-trivial: a "
        "linear-algebra entry point (not a bare product), a nested structure, or the algorithm argument omitted. A positive "
        "multiple of a PSD Kronecker operator is also called with Cholesky / Eigh (it inherits the declaration)."
        " Further: D K D declared SelfAdjoint under pow(., -1) with Eigh / Eig."
        " Round 5: BlockDiag of 120 SelfAdjoint 6 x 6 blocks (n = 720), trace of a 30^4 Kronecker product; a"
        " deterministic grid runs every (entry point, structure, algorithm argument) combination once.")
ASSUMPTIONS = [
    "tracemalloc sees NumPy buffer allocations (it does: NumPy registers them); memory inside LAPACK work arrays is not seen",
    "calibration on the pinned tree: factor-wise paths peak at 0.1-7 units, densifying paths at >= 350 units, so the factor 16 has a wide margin on both sides",
    "no wall-clock criterion; BLAS is pinned to one thread by ./check",
]
ENTRY = ["matvec", "matvec", "inv", "solve", "logdet", "diag", "trace", "exp", "log", "sqrt", "isqrt", "pow", "apply_unary", "cholesky", "plu"]


def factorizations(lo=1024, hi=1300):
    out = []
    for a in range(4, 37):
        for b in range(a, 330):
            if lo <= a * b <= hi and b <= 36:
                out.append((a, b))
            for c in range(b, 37):
                if lo <= a * b * c <= hi:
                    out.append((a, b, c))
                for d in range(c, 13):
                    if lo <= a * b * c * d <= hi:
                        out.append((a, b, c, d))
    return sorted(set(out))


FACT = factorizations()
FACT2 = [f for f in FACT if len(f) == 2] or [(32, 32)]
FACT3 = [f for f in FACT if len(f) >= 3]


@st.composite
def cases(draw, tier):
    entry = draw(st.sampled_from(ENTRY))
    unary = entry in ("exp", "log", "sqrt", "isqrt", "pow", "apply_unary")
    if entry == "matvec":
        struct = draw(st.sampled_from(["kron", "kronsum", "bd", "bd_of_kron", "kron_of_bd", "sum", "prod"]))
    elif entry in ("inv", "solve", "logdet"):
        struct = draw(st.sampled_from(["kron", "bd", "bd_of_kron", "kron_of_bd", "prod_kron_diag", "scaled_kron"]))
    elif entry in ("diag", "trace"):
        struct = draw(st.sampled_from(["kron", "kronsum", "bd", "sum_kron_diag", "bd_of_kron"] + (["kron_huge"] if entry == "trace" else [])))
    elif unary:
        opts = ["bd", "diag", "bd"]  # (Transpose/Adjoint wrappers would enter the shim's dense linear_transpose: excluded by construction)
        if entry == "exp":
            opts += ["kronsum", "kronsum"]
        if entry in ("pow", "sqrt", "isqrt"):
            opts += ["kron", "kron"]
        if entry == "pow":
            opts += ["cong_kron_diag"]  # D K D declared SelfAdjoint: power -1 is the factor-wise inverse
        if entry in ("exp", "apply_unary"):
            opts += ["bd_selfadj_small"]  # below the 10^6-entry switch: blocks declared SelfAdjoint (indefinite), not PSD
        struct = draw(st.sampled_from(opts))
    else:
        struct = draw(st.sampled_from(["kron", "bd", "bd_of_kron", "kron_of_bd", "diag"]))
    if struct == "cong_kron_diag":
        return {"entry": "pow", "struct": struct, "fact": draw(st.sampled_from(FACT2)), "block": 4, "seed": draw(st.integers(0, 10**5)),
                "ncol": draw(st.sampled_from([0, 2])), "with_alg": draw(st.booleans()), "cplx": False,
                "alg": draw(st.sampled_from(["Auto", "Eigh", "Eigh", "Eig"])), "exponent": -1}
    return {"entry": entry, "struct": struct, "fact": draw(st.sampled_from(FACT3 if struct in ("kron", "kronsum") and draw(st.booleans()) else FACT2)),
            "block": draw(st.integers(4, 16)), "seed": draw(st.integers(0, 10**5)), "ncol": draw(st.sampled_from([0, 2])),
            "with_alg": draw(st.booleans()), "cplx": draw(st.integers(1, 5)) == 1,
            "alg": draw(st.sampled_from(["Auto", "Auto", "LU", "Cholesky", "Eig", "Eigh"])), "exponent": draw(st.sampled_from([1.5, 0.5, 2, -1, -2, 10, 12]))}


def strategy(tier):
    return cases(tier)


def pd(n, rng, cplx=False):
    B = rng.standard_normal((n, n)) + (1j * rng.standard_normal((n, n)) if cplx else 0)
    return B @ B.conj().T / n + np.eye(n)


def build(case):
    """returns (operator, n, leaf_bytes, block_dense_bytes) ; block_dense_bytes = dense size of the largest unit a rule may densify."""
    import cola
    ops = cola.ops
    rng = np.random.default_rng(case["seed"])
    cplx = case["cplx"]
    leaves = []

    def dense_pd(m):
        M = pd(m, rng, cplx)
        leaves.append(M.nbytes)
        return cola.PSD(ops.Dense(M))

    def kron(sizes):
        return cola.PSD(ops.Kronecker(*[dense_pd(s) for s in sizes]))

    def bd(block, total):
        mult = max(1, total // block)
        return cola.PSD(ops.BlockDiag(dense_pd(block), multiplicities=[mult]))

    s, fact, blk = case["struct"], case["fact"], case["block"]
    n_target = int(np.prod(fact))
    unit = 0  # largest sub-block a function without structural rule for it may densify
    if s == "kron":
        A = kron(fact)
    elif s == "kronsum":
        A = ops.KronSum(*[dense_pd(x) for x in fact])
    elif s == "bd":
        A = bd(blk, n_target)
        unit = blk
    elif s == "bd_of_kron":
        a, b = fact[0], fact[1]
        inner = kron((4, a))
        mult = max(1, n_target // (4 * a))
        A = cola.PSD(ops.BlockDiag(inner, multiplicities=[mult]))
        unit = 4 * a
    elif s == "kron_of_bd":
        a = fact[0]
        inner = cola.PSD(ops.BlockDiag(dense_pd(blk), multiplicities=[max(1, (n_target // a) // blk)]))
        A = cola.PSD(ops.Kronecker(dense_pd(a), inner))
        unit = blk
    elif s in ("sum", "sum_kron_diag"):
        K = kron(fact)
        d = 1.0 + rng.random(K.shape[0])
        leaves.append(d.nbytes)
        A = K + ops.Diagonal(d.astype(K.dtype))
    elif s in ("prod", "prod_kron_diag"):
        K = kron(fact)
        d = 1.0 + rng.random(K.shape[0])
        leaves.append(d.nbytes)
        A = K @ ops.Diagonal(d.astype(K.dtype))
        if s == "prod":
            p = rng.permutation(K.shape[0])
            leaves.append(p.nbytes * 2)
            A = ops.Permutation(p, dtype=K.dtype) @ A @ ops.Tridiagonal(np.ones(K.shape[0] - 1, dtype=K.dtype), 3 * np.ones(K.shape[0], dtype=K.dtype), np.ones(K.shape[0] - 1, dtype=K.dtype))
            leaves.append(3 * d.nbytes)
    elif s == "kron_huge":
        # n = 30^4 = 810000: the trace is the product of four factor traces; even an O(n) work vector is 6.5 MB
        A = kron((30, 30, 30, 30))
    elif s == "bd_selfadj_small":
        # n = 6 * 120 = 720 < 1000: the whole operator is below the size at which Auto switches algorithm
        Bm = rng.standard_normal((6, 6))
        Bm = (Bm + Bm.T) / 2
        leaves.append(Bm.nbytes)
        A = ops.BlockDiag(cola.SelfAdjoint(ops.Dense(Bm)), multiplicities=[120])
        unit = 6
    elif s == "cong_kron_diag":
        K = kron(fact)
        d = 1.0 + rng.random(K.shape[0])
        leaves.append(d.nbytes)
        D = ops.Diagonal(d.astype(K.dtype))
        A = cola.SelfAdjoint(D @ K @ D)
    elif s == "scaled_kron":
        A = 2.5 * kron(fact)
    elif s == "diag":
        d = 1.0 + rng.random(n_target)
        leaves.append(d.nbytes)
        A = cola.PSD(ops.Diagonal(d))
    elif s == "T_bd":
        A = bd(blk, n_target).T
        unit = blk
    else:
        raise ValueError(s)
    n = A.shape[0]
    item = 16 if cplx else 8
    return A, n, sum(leaves), unit * unit * item


def measure(fn):
    import gc
    gc.collect()
    tracemalloc.start()
    try:
        base = tracemalloc.get_traced_memory()[0]
        tracemalloc.reset_peak()
        res = fn()
        peak = tracemalloc.get_traced_memory()[1]
    finally:
        tracemalloc.stop()
    return res, max(0, peak - base)


def nbytes_of(x):
    from cola.ops import LinearOperator
    if isinstance(x, np.ndarray):
        return x.nbytes
    if isinstance(x, (tuple, list)):
        return sum(nbytes_of(y) for y in x)
    if isinstance(x, LinearOperator):
        return 0
    return 16


def check(case, out):
    import cola
    from cola.linalg.decompositions.decompositions import cholesky, plu
    L = cola.linalg
    entry, struct = case["entry"], case["struct"]
    A, n, leaf_bytes, unit_bytes = build(case)
    rng = np.random.default_rng(case["seed"] + 1)
    x = rng.standard_normal((n, ) if case["ncol"] == 0 else (n, case["ncol"]))
    if case["cplx"]:
        x = x.astype(np.complex128)
    item = np.dtype(A.dtype).itemsize
    dense_bytes = n * n * item
    with_alg = case["with_alg"]
    out.label("entry:" + entry, "struct:" + struct, "alg:" + ("explicit" if with_alg else "omitted"), "complex" if case["cplx"] else "real")
    out.nontrivial = entry != "matvec" or struct in ("bd_of_kron", "kron_of_bd") or not with_alg
    # explicit algorithm objects admitted by the entry point (structural rules take any Algorithm and pass it down to the factors)
    name = case.get("alg", "Auto")
    if entry in ("inv", "solve", "logdet") and name in ("Eig", "Eigh"):
        name = "LU" if name == "Eig" else "Cholesky"
    if entry in ("exp", "log", "sqrt", "isqrt", "pow", "apply_unary") and name in ("LU", "Cholesky"):
        name = "Eig" if name == "LU" else "Eigh"
    if entry in ("diag", "trace", "matvec", "cholesky", "plu"):
        name = "Auto"
    if struct in ("prod_kron_diag", "sum", "prod", "sum_kron_diag") and name in ("Cholesky", "Eigh"):
        name = "Auto"  # these composites are not declared PSD (a positive multiple of a PSD operator, scaled_kron, inherits the declaration)
    algobj = {"Auto": L.Auto, "LU": L.LU, "Cholesky": L.Cholesky, "Eig": L.Eig, "Eigh": L.Eigh}[name]()
    alg = [algobj] if with_alg else []
    out.label("algname:" + (name if with_alg else "omitted"))
    expo = case.get("exponent", 1.5)

    def call():
        if entry == "matvec":
            return A @ x
        if entry == "inv":
            return L.inv(A, *alg) @ x
        if entry == "solve":
            return L.solve(A, x, *alg)
        if entry == "logdet":
            return L.logdet(A, *alg) if not with_alg else L.logdet(A, log_alg=algobj, trace_alg=L.Auto())
        if entry == "diag":
            return L.diag(A, 0, *alg)
        if entry == "trace":
            return L.trace(A, *alg)
        if entry in ("exp", "log", "sqrt", "isqrt"):
            return getattr(L, entry)(A, *alg) @ x
        if entry == "pow":
            return L.pow(A, expo, *alg) @ x
        if entry == "apply_unary":
            return L.apply_unary(np.tanh, A, *alg) @ x
        if entry == "cholesky":
            return cholesky(A) @ x
        if entry == "plu":
            P, Lo, U = plu(A)
            return P @ (Lo @ (U @ x))
        raise ValueError(entry)

    site = f"{entry}:{struct}:{name if with_alg else 'noalg'}" + (f":a={expo}" if entry == "pow" else "")
    try:
        res, peak = measure(call)
    except Exception as e:
        # every operator here is declared PSD and only (function, kind) pairs with a structural rule are called:
        # no refusal is legitimate
        out.fail("call", site, oracle.exc_man(e), e)
        return
    allowed = (0 if entry in ("trace", "logdet") else x.nbytes) + nbytes_of(res) + leaf_bytes + unit_bytes * (8 if unit_bytes else 0)
    bound = 16 * allowed + 256 * 1024
    out.label("units:%d" % min(64, int(peak / max(allowed, 1))))
    if bound > dense_bytes / 4:
        out.inconclusive += 1  # bound not discriminating for this (small) case
        return
    if peak > bound:
        out.fail("memory", site, "densified" if peak > 0.5 * dense_bytes else "over_bound",
                 f"peak {peak / 1e6:.2f} MB > bound {bound / 1e6:.2f} MB (one dense n x n array = {dense_bytes / 1e6:.1f} MB, n = {n})")


def control_measurement():
    """control measurement: a deliberate densification must be visible to the meter."""
    from cvh import runner
    import cola
    A = cola.ops.Kronecker(cola.ops.Dense(np.eye(32)), cola.ops.Dense(np.eye(32)))
    _, peak = measure(lambda: A.to_dense())
    want = 1024 * 1024 * 8
    if peak < 0.9 * want:
        raise runner.HarnessError(f"control measurement failed: to_dense() of a 1024 x 1024 operator registered only {peak} bytes")
    return {"control_to_dense_peak_bytes": int(peak), "control_expected_bytes": want}


# ----------------------------------------------------------------------------- deterministic grid
STRUCTS_FOR = {
    "matvec": ["kron", "kronsum", "bd", "bd_of_kron", "kron_of_bd", "sum", "prod"],
    "inv": ["kron", "bd", "bd_of_kron", "kron_of_bd", "prod_kron_diag", "scaled_kron"],
    "solve": ["kron", "bd", "bd_of_kron", "kron_of_bd", "prod_kron_diag", "scaled_kron"],
    "logdet": ["kron", "bd", "bd_of_kron", "kron_of_bd", "prod_kron_diag", "scaled_kron"],
    "diag": ["kron", "kronsum", "bd", "sum_kron_diag", "bd_of_kron"],
    "trace": ["kron", "kronsum", "bd", "sum_kron_diag", "bd_of_kron", "kron_huge"],
    "exp": ["bd", "diag", "kronsum", "bd_selfadj_small"], "log": ["bd", "diag"], "apply_unary": ["bd", "diag", "bd_selfadj_small"],
    "sqrt": ["bd", "diag", "kron"], "isqrt": ["bd", "diag", "kron"], "pow": ["bd", "diag", "kron", "cong_kron_diag"],
    "cholesky": ["kron", "bd", "bd_of_kron", "kron_of_bd", "diag"], "plu": ["kron", "bd", "bd_of_kron", "kron_of_bd", "diag"],
}


def grid(tier):
    """every (entry point, structure, algorithm argument) combination once, on one fixed factorisation."""
    cases = []
    for entry, structs in STRUCTS_FOR.items():
        for struct in structs:
            algs = [(False, "Auto")]
            if entry not in ("matvec", "cholesky", "plu"):
                algs += [(True, a) for a in (["Auto"] if entry in ("diag", "trace") else ["Auto", "LU", "Cholesky", "Eig", "Eigh"])]
            for with_alg, alg in algs:
                for expo in ([1.5, -1, -2, 10] if entry == "pow" else [1.5]):
                    for fact in ([FACT2[0], FACT3[0]] if struct in ("kron", "kronsum") and tier != "quick" else [FACT2[0]]):
                        cases.append({"entry": entry, "struct": struct, "fact": fact, "block": 8, "seed": 7, "ncol": 0, "with_alg": with_alg,
                                      "cplx": False, "alg": alg, "exponent": expo if struct != "cong_kron_diag" else -1})
    return cases


def _grid_worker(case):
    from cvh import runner
    runner.setup_cola()
    out = runner.Outcome()
    try:
        check(case, out)
    except Exception as e:  # harness problem: surface it
        out.fail("harness", "grid", type(e).__name__, str(e))
    return case, out.failures, out.inconclusive


def deterministic(tier, seed, open_findings):
    import multiprocessing as mp
    import os
    from cvh import runner
    cases = grid(tier)
    nproc = int(os.environ.get("VERIF_SHARDS", "16"))
    with mp.get_context("fork").Pool(nproc) as pool:
        results = pool.map(_grid_worker, cases, chunksize=1)
    violations, seen, excluded, inconcl = [], set(), {}, 0
    for case, failures, inc in results:
        inconcl += inc
        unknown = []
        for f in failures:
            kid = runner.known_id(open_findings, f)
            if kid:
                excluded[kid] = excluded.get(kid, 0) + 1
            else:
                unknown.append(f)
        if unknown and runner.sig(unknown[0]) not in seen:
            seen.add(runner.sig(unknown[0]))
            violations.append({"case": case, "failures": unknown})
    extra = control_measurement()
    return {**extra, "grid_cases": len(cases), "grid_inconclusive": inconcl, "grid_exhaustive": "every (entry point, structure, algorithm argument) combination on one fixed factorisation",
            "violations": violations[:20], "deterministic_excluded_known": excluded}
