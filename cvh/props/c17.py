"""C17 - randomised routines are deterministic in their key and estimate without bias."""
import numpy as np
from hypothesis import strategies as st

from cvh import krylov_ref as KR, oracle

ID = "C17"
LEVEL = "exploration"
BUDGET = {"quick": 3000, "thorough": 50000}
WALL = {"quick": 240, "thorough": 2700}
MIN_CASES = {"quick": 400, "thorough": 4000}
RULE = ("Hypothesis draws (a) single calls (routine, operator, key, parameters) over hutchinson_diag_estimate, diag/trace with "
        "Hutch(key, rand), stochastic_lanczos_quad, default start vectors of lanczos / arnoldi / power_iteration, NystromPrecond, "
        "AdaNysPrecond, randomized_svd, lobpcg - offsets k, both probe distributions, tolerances, caps; and (b) histories: lists "
        "of steps interleaving those calls with user operations on numpy.random (seed, random, normal, shuffle), shrunk as one "
        "value. Oracle: same (operator, key, params) twice -> bit-identical output, also at different positions of a history "
        "(model: dict call-signature -> first result); numpy.random.get_state() identical before and after every cola call and "
        "equal to a mirror RandomState that only sees the user's operations; Rademacher probes on diagonal operators give the "
        "main diagonal exactly; unbiasedness: with the stopping rule disabled the estimate of entry i lies within 7 "
        "sigma_i/sqrt(N) of M[i,i+k] with the closed-form variance of the probe distribution; info['iterations']-1 <= "
        "max_iters. Non-trivial: k != 0, a history with >= 1 interleaved user draw, or a composite operator. (c) reuse: one "
        "algorithm object (Hutch / Lanczos / Arnoldi carrying the key) handed twice to trace / diag / logdet / eig / sqrt of "
        "composite operators with matmat-defined parts (Kronecker of 2-3, BlockDiag, Sum, scalar multiple): both results "
        "bit-identical and the object's fields unchanged."
        " Further: mode cap (a counting operator under the function, Hutch(...) and Auto(...): probe blocks <="
        " max_iters), Rademacher exactness at n in {99,100,101,150,260} and on operators whose only non-zero diagonal"
        " is the k-th."
        " Round 5: a twin call with the same key, operator and size and the other probe distribution inside one"
        " history.")
ASSUMPTIONS = [
    "z = 7 with closed-form variance (Gaussian: sum_j M_ij^2 + M_{i,i+k}^2; Rademacher: sum_{j != i+k} M_ij^2): false-alarm probability ~1e-11 per entry; detects bias of the order of the entries, not far below the sampling error",
    "the stopping rule is disabled by tol = 1.0001e-3 (just above the routine's assert) and a fixed max_iters; the number of probes is read from info['iterations']",
    "determinism is demanded for equal arguments in the same process; results are compared with numpy.array_equal",
]
ROUTINES = ["hutch", "hutch", "diag_hutch", "trace_hutch", "slq", "lanczos_default", "arnoldi_default", "power_iteration", "nystrom",
            "adanys", "rsvd", "lobpcg"]
USER_OPS = ["seed", "random", "normal", "shuffle"]


@st.composite
def op_spec(draw):
    kind = draw(st.sampled_from(["dense_pd", "dense_pd", "diag", "sum", "kron", "dense_pd_complex", "diag_complex"]))
    n = draw(st.integers(2, 10))
    if kind == "kron":
        n = draw(st.sampled_from([4, 6, 8, 9]))
    return {"kind": kind, "n": n, "seed": draw(st.integers(0, 10**5))}


@st.composite
def call_spec(draw, routines=ROUTINES):
    rt = draw(st.sampled_from(routines))
    spec = {"routine": rt, "op": draw(op_spec()), "key": draw(st.integers(1, 2**31 - 1))}
    n = spec["op"]["n"]
    if rt in ("hutch", "diag_hutch", "trace_hutch"):
        spec.update(k=draw(st.integers(-(n - 1), n - 1)) if rt != "trace_hutch" else 0, rand=draw(st.sampled_from(["normal", "rademacher"])),
                    max_iters=draw(st.integers(1, 12)), tol=draw(st.sampled_from([1.0001e-3, 3e-2, 0.5])))
    elif rt == "slq":
        spec.update(max_iters=draw(st.integers(2, n)), vtol=draw(st.sampled_from([0.5, 0.3])))
        if spec["op"]["kind"] == "diag_complex":
            spec["op"]["kind"] = "dense_pd_complex"  # slq needs a Hermitian operator
    elif rt in ("lanczos_default", "arnoldi_default"):
        spec.update(max_iters=draw(st.integers(1, n)))
    elif rt == "power_iteration":
        spec.update(max_iters=draw(st.integers(1, 30)))
    elif rt in ("nystrom", "adanys", "rsvd"):
        spec.update(rank=draw(st.integers(1, max(1, n // 2))))
    elif rt == "lobpcg":
        spec.update(max_iters=draw(st.integers(1, 3)))
    return spec


@st.composite
def cases(draw, tier):
    mode = draw(st.sampled_from(["single", "single", "history", "unbiased", "rademacher_diag", "reuse", "cap"]))
    if mode == "cap":
        # iteration cap through every way of handing it over: the function, Hutch(...), Auto(...) on its stochastic side;
        # products are counted by the operator itself
        n = draw(st.sampled_from([4, 5, 6, 8, 10, 12, 130]))
        return {"mode": mode, "n": n, "seed": draw(st.integers(0, 10**5)), "key": draw(st.integers(1, 2**31 - 1)),
                "via": draw(st.sampled_from(["hutch_fn", "diag_hutch", "trace_hutch", "diag_auto", "trace_auto"])),
                "k": draw(st.integers(-2, 2)), "rand": draw(st.sampled_from(["normal", "rademacher"])), "max_iters": draw(st.integers(1, 6)),
                "tol": draw(st.sampled_from([1.0001e-3, 0.09, 0.3]))}
    if mode == "reuse":
        # one algorithm object (carrying the key) handed to the same call twice: composite operators whose rules pass
        # the object on to their parts, parts without a deterministic rule so that the estimator really runs
        n = draw(st.sampled_from([4, 6, 8, 9]))
        return {"mode": mode, "n": n, "seed": draw(st.integers(0, 10**5)), "key": draw(st.integers(1, 2**31 - 1)),
                "op": draw(st.sampled_from(["generic", "kron", "kron3", "bd", "sum", "prod_scalar", "kron_dense"])),
                "call": draw(st.sampled_from(["trace_hutch", "trace_hutch", "diag_hutch", "logdet_lanczos_hutch", "eig_lanczos", "eig_arnoldi", "sqrt_lanczos"])),
                "k": draw(st.integers(-2, 2)), "rand": draw(st.sampled_from(["normal", "rademacher"])), "max_iters": draw(st.integers(1, 6))}
    if mode == "single":
        return {"mode": mode, "call": draw(call_spec())}
    if mode == "unbiased":
        spec = draw(call_spec(["hutch"]))
        spec.update(tol=1.0001e-3, max_iters=draw(st.integers(10, 40)))
        return {"mode": mode, "call": spec}
    if mode == "rademacher_diag":
        n = draw(st.integers(1, 12)) if draw(st.integers(1, 5)) > 1 else draw(st.sampled_from([99, 100, 101, 150, 260]))  # both sides of the probe block size 100
        return {"mode": mode, "n": n, "seed": draw(st.integers(0, 10**5)), "key": draw(st.integers(1, 2**31 - 1)),
                "max_iters": draw(st.integers(1, 8)), "via": draw(st.sampled_from(["hutch", "diag_hutch", "trace_hutch"])),
                # offset of the single non-zero diagonal of the operator (Rademacher probes recover it exactly as well)
                "k": draw(st.sampled_from([0, 0, 1, -1, 2, -5, 3]))}
    steps = []
    pool = draw(st.lists(call_spec(), min_size=1, max_size=3))
    if pool[0]["routine"] in ("hutch", "diag_hutch", "trace_hutch") and draw(st.booleans()):
        # the same key, operator and size with the other probe distribution: the two calls must not influence each other
        twin = dict(pool[0], rand="rademacher" if pool[0]["rand"] == "normal" else "normal")
        pool = [pool[0], twin] + pool[1:2]
    for _ in range(draw(st.integers(2, 8))):
        if draw(st.booleans()):
            steps.append({"t": "user", "op": draw(st.sampled_from(USER_OPS)), "arg": draw(st.integers(0, 1000))})
        else:
            steps.append({"t": "cola", "call": draw(st.sampled_from(pool))})
    return {"mode": "history", "steps": steps}


def strategy(tier):
    return cases(tier)


# ----------------------------------------------------------------------------- operators and calls
def build_op(spec):
    import cola
    n, seed = spec["n"], spec["seed"]
    rng = np.random.default_rng(seed)
    kind = spec["kind"]
    if kind == "dense_pd":
        B = rng.integers(-2, 3, size=(n, n)).astype(np.float64)
        M = B @ B.T / n + np.eye(n)
        return cola.PSD(cola.ops.Dense(M)), M
    if kind == "dense_pd_complex":  # complex Hermitian positive definite
        B = rng.integers(-2, 3, size=(n, n)) + 1j * rng.integers(-2, 3, size=(n, n))
        M = B @ B.conj().T / n + np.eye(n)
        return cola.PSD(cola.ops.Dense(M.astype(np.complex128))), M.astype(np.complex128)
    if kind == "diag_complex":
        d = rng.integers(1, 6, size=n) + 1j * rng.integers(-3, 4, size=n)
        return cola.ops.Diagonal(d.astype(np.complex128)), np.diag(d).astype(np.complex128)
    if kind == "diag":
        d = rng.integers(1, 6, size=n).astype(np.float64)
        return cola.PSD(cola.ops.Diagonal(d)), np.diag(d)
    if kind == "sum":
        B = rng.integers(-2, 3, size=(n, n)).astype(np.float64)
        M1 = B @ B.T / n + np.eye(n)
        d = rng.integers(1, 4, size=n).astype(np.float64)
        return cola.PSD(cola.ops.Dense(M1) + cola.ops.Diagonal(d)), M1 + np.diag(d)
    a = [x for x in range(2, n) if n % x == 0][0]
    B1 = rng.integers(-2, 3, size=(a, a)).astype(np.float64)
    B2 = rng.integers(-2, 3, size=(n // a, n // a)).astype(np.float64)
    M1, M2 = B1 @ B1.T / a + np.eye(a), B2 @ B2.T + np.eye(n // a)
    return cola.PSD(cola.ops.Kronecker(cola.PSD(cola.ops.Dense(M1)), cola.PSD(cola.ops.Dense(M2)))), np.kron(M1, M2)


def to_arrays(x):
    """Flatten a routine's output into a list of ndarrays for bitwise comparison."""
    from cola.ops import LinearOperator
    if isinstance(x, LinearOperator):
        try:
            return [np.asarray(x.to_dense())]
        except Exception:
            return [np.asarray(v) for v in x.flatten()[0]]
    if isinstance(x, dict):
        return [np.asarray(x.get("iterations", 0))]
    if isinstance(x, (tuple, list)):
        out = []
        for y in x:
            out.extend(to_arrays(y))
        return out
    return [np.asarray(x)]


def run_call(spec):
    """Execute one routine call; returns (list of arrays, info or None)."""
    import cola
    L = cola.linalg
    A, M = build_op(spec["op"])
    rt, key = spec["routine"], spec["key"]
    n = spec["op"]["n"]
    info = None
    if rt == "hutch":
        from cola.linalg.trace.diagonal_estimation import hutchinson_diag_estimate
        est, info = hutchinson_diag_estimate(A, k=spec["k"], tol=spec["tol"], max_iters=spec["max_iters"], rand=spec["rand"], key=key)
        res = est
    elif rt == "diag_hutch":
        res = L.diag(A, spec["k"], L.Hutch(tol=spec["tol"], max_iters=spec["max_iters"], rand=spec["rand"], key=key))
    elif rt == "trace_hutch":
        res = L.trace(A, L.Hutch(tol=spec["tol"], max_iters=spec["max_iters"], rand=spec["rand"], key=key))
    elif rt == "slq":
        from cola.linalg.tbd.slq import stochastic_lanczos_quad
        res = stochastic_lanczos_quad(A, np.log, max_iters=spec["max_iters"], tol=1e-8, vtol=spec["vtol"], key=key)
    elif rt == "lanczos_default":
        from cola.linalg.decompositions.lanczos import lanczos
        Q, T, info = lanczos(A, None, max_iters=spec["max_iters"], tol=1e-10, key=key)
        res = (Q, T)
    elif rt == "arnoldi_default":
        from cola.linalg.decompositions.arnoldi import arnoldi
        Q, H, info = arnoldi(A, None, max_iters=spec["max_iters"], tol=1e-10, key=key)
        res = (Q, H)
    elif rt == "power_iteration":
        from cola.linalg.eig.power_iteration import power_iteration
        v, e, info = power_iteration(A, tol=1e-9, max_iter=spec["max_iters"], key=key)
        res = (v, e)
    elif rt == "nystrom":
        from cola.linalg.preconditioning.preconditioners import NystromPrecond
        P = NystromPrecond(A, rank=spec["rank"], key=key)
        res = (P.U, P.Lambda)
    elif rt == "adanys":
        from cola.linalg.preconditioning.preconditioners import AdaNysPrecond
        P = AdaNysPrecond(A, rank=spec["rank"], bounds=(0.1, 0.5, 1.0))
        res = (P.U, np.asarray(P.rank))
    elif rt == "rsvd":
        from cola.linalg.tbd.randomized_svd import randomized_svd
        res = randomized_svd(A, spec["rank"])
    elif rt == "lobpcg":
        from cola.linalg.eig.lobpcg import lobpcg
        vals, V = lobpcg(A, max_iters=spec["max_iters"])
        res = (vals, V)
    else:
        raise ValueError(rt)
    return to_arrays(res), info, M


def state_equal(s1, s2):
    return s1[0] == s2[0] and np.array_equal(s1[1], s2[1]) and s1[2:] == s2[2:]


def same(a, b):
    return len(a) == len(b) and all(x.shape == y.shape and np.array_equal(x, y, equal_nan=True) for x, y in zip(a, b))


def sig_of(spec):
    import json
    return json.dumps(spec, sort_keys=True)


def guarded_call(out, sub, spec):
    before = np.random.get_state()
    try:
        res = run_call(spec)
    except Exception as e:
        out.notes.append(f"{spec['routine']}:" + oracle.exc_man(e))
        res = None
    after = np.random.get_state()
    if not state_equal(before, after):
        out.fail("global_state", spec["routine"], "advanced", "numpy.random.get_state() changed across the call")
    return res


def alg_snapshot(alg):
    import copy
    return copy.deepcopy(dict(vars(alg)))


def snap_equal(a, b):
    if a.keys() != b.keys():
        return False
    for k in a:
        x, y = a[k], b[k]
        if isinstance(x, np.ndarray) or isinstance(y, np.ndarray):
            if not (isinstance(x, np.ndarray) and isinstance(y, np.ndarray) and x.shape == y.shape and np.array_equal(x, y)):
                return False
        elif x != y:
            return False
    return True


def build_reuse_op(case):
    """composite PSD operators whose leaves are matmat-defined (no deterministic diag / trace rule)."""
    import cola
    ops = cola.ops
    rng = np.random.default_rng(case["seed"])
    n = case["n"]

    def pd(m):
        B = rng.integers(-2, 3, size=(m, m)).astype(np.float64)
        return B @ B.T / m + np.eye(m)

    def generic(M):
        return cola.PSD(ops.LinearOperator(np.float64, M.shape, matmat=lambda X, M=M: M @ X))

    a = [x for x in range(2, n) if n % x == 0][0]
    kind = case["op"]
    if kind == "generic":
        M = pd(n)
        return generic(M), M
    if kind == "kron":
        M1, M2 = pd(a), pd(n // a)
        return ops.Kronecker(generic(M1), generic(M2)), np.kron(M1, M2)
    if kind == "kron_dense":
        M1, M2 = pd(a), pd(n // a)
        return ops.Kronecker(generic(M1), cola.PSD(ops.Dense(M2))), np.kron(M1, M2)
    if kind == "kron3":
        M1, M2, M3 = pd(2), pd(2), pd(2)
        return ops.Kronecker(generic(M1), generic(M2), generic(M3)), np.kron(np.kron(M1, M2), M3)
    if kind == "bd":
        M1, M2 = pd(a), pd(n - a)
        Z = np.zeros((n, n))
        Z[:a, :a], Z[a:, a:] = M1, M2
        return ops.BlockDiag(generic(M1), generic(M2)), Z
    if kind == "sum":
        M1, M2 = pd(n), pd(n)
        return generic(M1) + generic(M2), M1 + M2
    M = pd(n)
    return 2.0 * generic(M), 2.0 * M


def check_reuse(case, out):
    import cola
    L = cola.linalg
    A, M = build_reuse_op(case)
    key, call = case["key"], case["call"]
    out.label("reuse:" + call, "op:" + case["op"])
    out.nontrivial = True
    n = M.shape[0]
    hutch = L.Hutch(tol=1.0001e-3, max_iters=case["max_iters"], rand=case["rand"], key=key)
    lan = L.Lanczos(max_iters=min(n, 4), tol=1e-10, key=key)
    arn = L.Arnoldi(max_iters=min(n, 4), tol=1e-10, key=key)
    algs = {"trace_hutch": [hutch], "diag_hutch": [hutch], "logdet_lanczos_hutch": [lan, hutch], "eig_lanczos": [lan], "eig_arnoldi": [arn],
            "sqrt_lanczos": [lan]}[call]
    probe = np.arange(1.0, n + 1)

    def run():
        if call == "trace_hutch":
            return L.trace(A, hutch)
        if call == "diag_hutch":
            return L.diag(A, case["k"] if case["op"] in ("generic", "sum", "prod_scalar") else 0, hutch)  # structural rules: main diagonal only
        if call == "logdet_lanczos_hutch":
            return L.logdet(A, lan, hutch)
        if call == "eig_lanczos":
            return L.eig(A, 2, "LM", lan)[0]
        if call == "eig_arnoldi":
            return L.eig(A, 2, "LM", arn)[0]
        return L.sqrt(A, lan) @ probe

    snaps = [alg_snapshot(a) for a in algs]
    results = []
    for i in range(2):
        before = np.random.get_state()
        try:
            results.append([np.asarray(x) for x in to_arrays(run())])
        except Exception as e:
            out.notes.append(f"reuse:{call}:" + oracle.exc_man(e))
            return
        if not state_equal(before, np.random.get_state()):
            out.fail("global_state", "reuse:" + call, "advanced", "numpy.random.get_state() changed across the call")
        for a, sn in zip(algs, snaps):
            if not snap_equal(alg_snapshot(a), sn):
                out.fail("determinism", f"reuse:{call}:{case['op']}", "algorithm_object_changed",
                         f"{type(a).__name__} fields after call {i + 1}: {vars(a)} (were {sn})")
                return
    if not same(results[0], results[1]):
        out.fail("determinism", f"reuse:{call}:{case['op']}", "differs", "the same call with the same operator and algorithm object returned different results")


def check(case, out):
    mode = case["mode"]
    out.label("mode:" + mode)
    saved = np.random.get_state()
    try:
        _check(case, out, mode)
    finally:
        np.random.set_state(saved)


def check_cap(case, out):
    import cola
    from cola.linalg.trace.diagonal_estimation import hutchinson_diag_estimate
    L = cola.linalg
    n, via, cap, tol = case["n"], case["via"], case["max_iters"], case["tol"]
    rng = np.random.default_rng(case["seed"])
    M = rng.integers(-3, 4, size=(n, n)).astype(np.float64)  # large off-diagonal part: the estimate does not converge early
    calls = []

    def mm(X):
        calls.append(X.shape[-1] if X.ndim == 2 else 1)
        return M @ X

    A = cola.ops.LinearOperator(np.float64, (n, n), matmat=mm)
    out.label("cap:" + via, "n:%s" % ("small" if n <= 12 else "big"))
    out.nontrivial = True
    k = case["k"] if via in ("hutch_fn", "diag_hutch", "diag_auto") else 0
    if via.endswith("auto"):
        tol = max(tol, 1.01 / np.sqrt(10.0 * n * n))  # the stochastic side of Auto's switch
    kw = dict(tol=tol, max_iters=cap, rand=case["rand"], key=case["key"])
    try:
        if via == "hutch_fn":
            hutchinson_diag_estimate(A, k=k, **kw)
        elif via == "diag_hutch":
            L.diag(A, k, L.Hutch(**kw))
        elif via == "trace_hutch":
            L.trace(A, L.Hutch(**kw))
        elif via == "diag_auto":
            L.diag(A, k, L.Auto(**kw))
        else:
            L.trace(A, L.Auto(**kw))
    except Exception as e:
        out.notes.append(f"cap:{via}:" + oracle.exc_man(e))
        return
    if len(calls) > cap:
        out.fail("max_iters", "cap:" + via, "exceeded", f"{len(calls)} probe blocks multiplied with max_iters={cap} (tol={tol:g}, n={n})")


def _check(case, out, mode):
    if mode == "reuse":
        return check_reuse(case, out)
    if mode == "cap":
        return check_cap(case, out)
    if mode == "single":
        spec = case["call"]
        out.label("routine:" + spec["routine"], "op:" + spec["op"]["kind"])
        out.nontrivial = spec.get("k", 0) != 0 or spec["op"]["kind"] in ("sum", "kron")
        np.random.seed(12345)
        r1 = guarded_call(out, "determinism", spec)
        np.random.seed(54321)  # a different global state must not matter
        np.random.random(3)
        r2 = guarded_call(out, "determinism", spec)
        if r1 is None or r2 is None:
            return
        if not same(r1[0], r2[0]):
            out.fail("determinism", spec["routine"], "differs", "two calls with identical arguments returned different results")
        info = r1[1]
        if info is not None and "iterations" in info and "max_iters" in spec and spec["routine"] in ("hutch", ):
            if info["iterations"] - 1 > spec["max_iters"]:
                out.fail("max_iters", spec["routine"], "exceeded", f"{info['iterations'] - 1} iterations > max_iters {spec['max_iters']}")
        return

    if mode == "history":
        steps = case["steps"]
        out.nontrivial = any(s["t"] == "user" for s in steps) and any(s["t"] == "cola" for s in steps)
        mirror = np.random.RandomState(0)
        np.random.seed(0)
        first = {}
        for i, s in enumerate(steps):
            if s["t"] == "user":
                op, arg = s["op"], s["arg"]
                if op == "seed":
                    np.random.seed(arg)
                    mirror.seed(arg)
                elif op == "random":
                    a, b = np.random.random(1 + arg % 5), mirror.random_sample(1 + arg % 5)
                    if not np.array_equal(a, b):
                        out.fail("global_state", "history", "user_stream_changed", f"step {i}: user draw differs from an undisturbed stream")
                        return
                elif op == "normal":
                    a, b = np.random.normal(size=1 + arg % 4), mirror.normal(size=1 + arg % 4)
                    if not np.array_equal(a, b):
                        out.fail("global_state", "history", "user_stream_changed", f"step {i}")
                        return
                else:
                    x, y = np.arange(5 + arg % 5), np.arange(5 + arg % 5)
                    np.random.shuffle(x)
                    mirror.shuffle(y)
                    if not np.array_equal(x, y):
                        out.fail("global_state", "history", "user_stream_changed", f"step {i}")
                        return
            else:
                spec = s["call"]
                out.label("routine:" + spec["routine"])
                r = guarded_call(out, "history", spec)
                if not state_equal(np.random.get_state(), mirror.get_state()):
                    out.fail("global_state", spec["routine"], "advanced", f"step {i}: global state differs from the mirror that only saw user operations")
                    return
                if r is None:
                    continue
                key = sig_of(spec)
                if key in first:
                    if not same(first[key], r[0]):
                        out.fail("determinism", spec["routine"], "differs_in_history", f"step {i}: repeated call differs from its first result")
                        return
                else:
                    first[key] = r[0]
        return

    if mode == "rademacher_diag":
        import cola
        from cola.linalg.trace.diagonal_estimation import hutchinson_diag_estimate
        L = cola.linalg
        n = case["n"]
        rs = np.random.default_rng(case["seed"])
        d = rs.integers(-5, 6, size=n).astype(np.float64)
        if case["seed"] % 3 == 0:  # complex diagonal
            d = d + 1j * rs.integers(-5, 6, size=n)
        A = cola.ops.Diagonal(d)
        out.nontrivial = True
        kk = case.get("k", 0)
        if kk != 0 and abs(kk) < n and case["via"] != "trace_hutch":
            # a matrix whose only non-zero diagonal is the kk-th one: Rademacher probes give that diagonal exactly
            Mk = np.diag(d[:n - abs(kk)], kk)
            A = cola.ops.LinearOperator(Mk.dtype, (n, n), matmat=lambda X, Mk=Mk: Mk @ X)
            d = d[:n - abs(kk)]
            out.label("offset_diagonal")
        else:
            kk = 0
        try:
            if case["via"] == "hutch":
                est, _ = hutchinson_diag_estimate(A, k=kk, tol=1.0001e-3, max_iters=case["max_iters"], rand="rademacher", key=case["key"])
                ref = d
            elif case["via"] == "diag_hutch":
                est = L.diag(cola.no_dispatch(A), kk, L.Hutch(tol=1.0001e-3, max_iters=case["max_iters"], rand="rademacher", key=case["key"]))
                ref = d
            else:
                est = L.trace(cola.no_dispatch(A), L.Hutch(tol=1.0001e-3, max_iters=case["max_iters"], rand="rademacher", key=case["key"]))
                ref = d.sum()
        except Exception as e:
            out.fail("rademacher_exact", case["via"], oracle.exc_man(e), e)
            return
        if not np.allclose(np.asarray(est), ref, rtol=0, atol=1e-12 * max(1, np.abs(d).max())):
            out.fail("rademacher_exact", case["via"], "value", f"estimate {np.asarray(est).reshape(-1)[:4]} expected {np.reshape(ref, -1)[:4]}")
        return

    if mode == "unbiased":
        spec = case["call"]
        out.label("rand:" + spec["rand"], "op:" + spec["op"]["kind"], "k:" + ("0" if spec["k"] == 0 else "nonzero"))
        out.nontrivial = spec["k"] != 0 or spec["op"]["kind"] in ("sum", "kron")
        r = guarded_call(out, "unbiased", spec)
        if r is None:
            return
        (est, ), info, M = r[0][:1], r[1], r[2]
        n, k = M.shape[0], spec["k"]
        iters = info["iterations"] - 1
        if iters > spec["max_iters"]:
            out.fail("max_iters", "hutch", "exceeded", f"{iters} > {spec['max_iters']}")
        bs = min(100, n)
        N = max(iters, 1) * bs
        ref = np.diag(M, k)
        if est.shape != ref.shape:
            out.fail("unbiased", "hutch", "length", f"{est.shape} expected {ref.shape}")
            return
        rows = np.arange(n - abs(k)) + (0 if k >= 0 else -k)
        cols = rows + k
        rowsq = (np.abs(M[rows]) ** 2).sum(1)
        var = rowsq + np.abs(ref)**2 if spec["rand"] == "normal" else rowsq - np.abs(ref)**2
        z = np.abs(est - ref) / (np.sqrt(np.maximum(var, 0) / N) + 1e-12)
        if np.max(z) > 7:
            i = int(np.argmax(z))
            out.fail("unbiased", f"hutch:{spec['rand']}:{'k0' if k == 0 else 'k!=0'}", "biased", f"entry {i}: estimate {est[i]:.4g} vs {ref[i]:.4g}, z = {z[i]:.1f} with N = {N} probes (k={k}, n={n})")
