"""C05 - reported structural annotations are true of the represented matrix."""
import numpy as np
from hypothesis import strategies as st

from cvh import gen, ir as IR, oracle, treeprop as TP

ID = "C05"
LEVEL = "exploration"
BUDGET = {"quick": 16000, "thorough": 300000}
WALL = {"quick": 220, "thorough": 2400}
MIN_CASES = {"quick": 1500, "thorough": 15000}
RULE = ("Two generated families. (tree) Hypothesis draws operator trees whose leaves carry every combination of TRUE "
        "declarations (PSD/SelfAdjoint/Unitary/Stiefel/none; the generator only declares what its construction guarantees) "
        "combined by scalar multiples (positive, negative, complex, unit-modulus, zero), sums, products incl. the same-object "
        "patterns A.H@A, A@A.H, A.T@A, A@A.T (also with a lazy, non-Dense factor and multiplied further: G^H G B), Kronecker, "
        "block-diagonal, slices with equal / unequal / equal-but-permuted index sets, .T/.H, declarations on composites; every "
        "annotation reported by the root, by every IR subtree (built stand-alone) and by every operator object reachable "
        "inside the root is tested on the dense reference matrix. (routine) outputs of lanczos, arnoldi, eig (all "
        "rules/algorithms, incl. explicit Eig on declared-SelfAdjoint operators with repeated eigenvalues), svd, exp/log/sqrt/pow, inv(Unitary), pinv(CG) are tested the same way. Second half: B = Ann(A) "
        "has the same dense matrix, annotations = A.annotations | {Ann}, and A is unchanged. Non-trivial: some node reports "
        "an annotation it was not directly declared with (inferred, or attached by a routine)."
        " Further: annotated structured operators under one combinator incl. congruences (TraitGen.annotated),"
        " indefinite Hermitian inputs and user functions with real / complex coefficients for the unary routines,"
        " rank-deficient and complex diagonals for svd."
        " Round 5: a real-valued Python function is applied through the same algorithm before the complex-valued one.")
ASSUMPTIONS = [
    "SelfAdjoint: ||M-M^H|| <= 1e-5 max(1,||M||); PSD: additionally lambda_min >= -1e-5 max(1,||M||); Stiefel: ||M^H M - I|| <= 1e-5; Unitary: square and both products",
    "the user's declarations are true by construction of the generator (PD = B B^H + cI, Hermitian = B + B^H, unitary = signed permutations / FFT / Householder with unit vector)",
    "false annotations caused by open finding F-C05-scalar (scalar multiple keeps all annotations) are attributed to it by annotation name and counted under excluded_known",
]
AVOID = set()
ANN = ["SelfAdjoint", "PSD", "Stiefel", "Unitary"]


def configure(tier, opts):
    AVOID.clear()
    AVOID.update(TP.load_avoid(ID, opts, base=("dup_index", )))


# ----------------------------------------------------------------------------- truth of annotations
def ann_names(op):
    import cola
    names = set()
    for a in op.annotations:
        for n in ANN:
            if issubclass(a, getattr(cola, n)):
                names.add(n)
    return names


def truth(M):
    """Set of annotation names that are true of the dense matrix M."""
    M = np.asarray(M).astype(np.complex128)
    r, c = M.shape
    nrm = max(1.0, float(np.abs(M).max(initial=0)))
    tol = 1e-5 * nrm
    out = set()
    if r == c and np.abs(M - M.conj().T).max(initial=0) <= tol:
        out.add("SelfAdjoint")
        if r == 0 or np.linalg.eigvalsh((M + M.conj().T) / 2).min() >= -tol * max(1, r):
            out.add("PSD")
    if np.abs(M.conj().T @ M - np.eye(c)).max(initial=0) <= 1e-5 * max(1, c):
        out.add("Stiefel")
        if r == c and np.abs(M @ M.conj().T - np.eye(r)).max(initial=0) <= 1e-5 * max(1, r):
            out.add("Unitary")
    return out


def false_annotations(op, M):
    return ann_names(op) - truth(M)


# ----------------------------------------------------------------------------- generators
class AnnGen(gen.TraitGen):
    def __init__(self, draw, **kw):
        super().__init__(draw, **kw)
        self.comp_any += ["gramx"]
        self.comp_sq += ["traited", "traited", "sslice", "gramprod", "annwrap"]

    def op(self, r, c, depth):
        if r == c and self.integer(1, 2) == 1:
            return self.k_traited(r, c, depth)
        if r > c and self.integer(1, 4) == 1:
            return self.stiefel(r, c)
        return super().op(r, c, depth)

    def k_traited(self, r, c, d):
        return self.sq(r, self.pick(["pd", "herm", "unitary", "inv"]), max(d, 0))

    def k_gramx(self, r, c, d):
        # same-object product with an arbitrary (possibly non-square, possibly complex) factor
        if r != c:
            return self.k_prod(r, c, d)
        form = self.pick(["HA", "AH", "TA", "AT"])
        m = self.integer(1, 5)
        ch = self.op(m, r, d) if form in ("HA", "TA") else self.op(r, m, d)
        return {"k": "gram", "form": form, "ch": [ch]}

    def k_gramprod(self, r, c, d):
        # a same-object product G^H G (G lazy, not Dense) multiplied further: G^H G B / B G^H G / (G^H G) (G^H G)
        form = self.pick(["HA", "AH", "TA", "AT"])
        m = self.integer(1, 5)
        shape = (m, r) if form in ("HA", "TA") else (r, m)
        G = {"k": self.pick(["sum", "sum", "prod"]), "via": "op", "ch": None}
        if G["k"] == "sum":
            G["ch"] = [self.op(*shape, max(d - 1, 0)), self.op(*shape, 0)]
        else:
            k = self.integer(1, 4)
            G["ch"] = [self.op(shape[0], k, 0), self.op(k, shape[1], max(d - 1, 0))]
        gram = {"k": "gram", "form": form, "ch": [G]}
        other = gram if self.integer(1, 4) == 1 else self.op(r, r, max(d - 1, 0))
        ch = [gram, other] if self.boolean() else [other, gram]
        return {"k": "prod", "via": self.pick(["op", "op", "ctor"]), "ch": ch}

    def k_annwrap(self, r, c, d):
        # annotated structured operators under one combinator (incl. congruences B K1 K2 B^H), see TraitGen.annotated
        return self.annotated(r, min(max(d, 0), 2), keep_shape=True)

    def k_sslice(self, r, c, d):
        # slice of an annotated square operator with equal or unequal index sets
        R = r + self.integer(0, 2)
        child = self.sq(R, self.pick(["pd", "herm", "unitary"]), max(d, 0))
        s0 = self.index_for(r, R)
        s1 = s0 if self.boolean() else self.index_for(r, R)
        if self.integer(1, 3) == 1:
            # the same set of positions on both axes, in a different order: a permuted principal sub-matrix
            pos = [int(p) for p in np.arange(R)[IR.dec_index(s0)] % R]
            if len(set(pos)) == len(pos) and len(pos) >= 2:
                s0, s1 = {"ix": pos}, {"ix": [int(p) for p in self.draw(st.permutations(pos))]}
        return {"k": "slice", "ch": [child], "s0": s0, "s1": s1}

    def k_scale(self, r, c, d):
        s = self.pick([{"t": "int", "v": -1}, {"t": "float", "v": -2.0}, {"t": "int", "v": 0}, {"t": "complex", "v": [0, 1]},
                       {"t": "complex", "v": [1, 1]}, {"t": "float", "v": 2.0}, {"t": "int", "v": 1}, {"t": "c16", "v": [0, -1]},
                       {"t": "f4", "v": 0.5}])
        return {"k": "scale", "c": s, "side": self.pick("lr"), "ch": [self.op(r, c, d)]}


@st.composite
def tree_cases(draw, tier):
    g = AnnGen(draw, avoid=AVOID)
    n = g.integer(1, 6)
    sq = g.integer(1, 4) > 1
    r, c = (n, n) if sq else (g.integer(1, 6), g.integer(1, 6))
    depth = g.pick([1, 1, 2, 2, 3] + ([4] if tier == "thorough" else []))
    root = g.pick([k for k in g.comp_any + (g.comp_sq if r == c else []) if g.ok(k) and g.feasible(k, r, c) and k not in ("cat", "nodisp", "relazify")])
    tree = getattr(g, "k_" + root)(r, c, depth - 1)
    return {"mode": "tree", "tree": tree, "ann": g.pick(ANN)}


ROUTINES = ["lanczos", "arnoldi", "eig", "svd", "unary", "inv_unitary", "pinv_cg"]


@st.composite
def routine_cases(draw, tier):
    g = gen.TraitGen(draw, avoid=AVOID, dtypes=("f8", "c16", "f4"))
    rt = g.pick(ROUTINES)
    n = g.integer(2, 7)
    case = {"mode": "routine", "routine": rt, "seed": g.integer(0, 10**6)}
    if rt == "lanczos":
        case["tree"] = g.t_herm(n, 1)
        case["max_iters"] = g.integer(1, n + 2)
    elif rt == "arnoldi":
        if "arnoldi_pad" in AVOID:  # open finding F-C05-arnoldi-stiefel: stay below n steps on generic matrices
            case["tree"] = g._dense_like(g.dd_matrix(n, g.dtype()), "c16")
            case["tree"]["a"] = gen.enc(g.dd_matrix(n, "f8"))
            case["max_iters"] = g.integer(1, n - 1)
        else:
            case["tree"] = g.pick([g.t_inv, g.t_herm])(n, 1)
            case["max_iters"] = g.integer(1, n + 2)
    elif rt == "eig":
        kind = g.pick(["herm", "herm_rep", "gen", "diag", "tri", "eye"])
        case["alg"] = g.pick(["omitted", "Auto", "Eig", "Eigh", "Lanczos", "Arnoldi"])
        if kind == "herm_rep":
            # declared-SelfAdjoint operator with repeated eigenvalues in a generic (non axis-aligned) eigenbasis
            dt = g.dtype(("f8", "c16"))
            Qm = np.linalg.qr(g.dd_matrix(n, dt))[0]
            lam = np.array([g.pick([-2.0, 1.0, 3.0]) for _ in range(n)])
            M = (Qm * lam) @ Qm.conj().T
            case["tree"] = {"k": "ann", "a": g.pick(["SelfAdjoint", "SelfAdjoint", "PSD"]) if lam.min() > 0 else "SelfAdjoint",
                            "ch": [g._dense_like((M + M.conj().T) / 2, dt, kinds=("dense", ))]}
        elif kind == "herm" or case["alg"] in ("Eigh", "Lanczos"):
            B = g.array((n, n), g.dtype(), -2, 2)
            case["tree"] = {"k": "ann", "a": "SelfAdjoint", "ch": [g._dense_like(B + B.conj().T, "c16" if B.dtype.kind == "c" else "f8")]}
        elif kind == "gen":
            case["tree"] = g._dense_like(g.dd_matrix(n, "f8"), "f8")
        elif kind == "diag":
            case["tree"] = {"k": "diag", "d": gen.enc(np.array(g.draw(st.permutations([i - n // 2 + (i >= n // 2) for i in range(n)])), dtype=np.float64))}
        elif kind == "tri":
            a = np.triu(g.array((n, n), "f8", -2, 2), 1) + np.diag(np.array(g.draw(st.permutations(list(range(1, n + 1)))), dtype=float))
            lower = g.boolean()
            case["tree"] = {"k": "tri", "a": gen.enc(a.T.copy() if lower else a), "lower": lower}
        else:
            case["tree"] = {"k": "eye", "n": n, "dt": "f8"}
        case["k"] = g.integer(1, n)
        case["which"] = g.pick(["LM", "SM"])
    elif rt == "svd":
        r, c = g.integer(1, 6), g.integer(1, 6)
        kind = g.pick(["dense", "dense", "diag", "eye"])
        if kind == "dense":
            dt = g.dtype(("f8", "c16"))
            m = min(r, c)
            core = g.dd_matrix(m, dt)  # full rank by construction
            M = np.hstack([core, g.array((m, c - m), dt, -2, 2)]) if c >= r else np.vstack([core, g.array((r - m, m), dt, -2, 2)])
            case["tree"] = g._dense_like(M, dt)
        elif kind == "diag":
            # entries of both signs and exact zeros (rank deficient), real or complex
            d = g.ints(r, -2, 4).astype(np.float64)
            case["tree"] = {"k": "diag", "d": gen.enc(d * (1 + 1j) if g.integer(1, 3) == 1 else d)}
        else:
            case["tree"] = {"k": "eye", "n": r, "dt": "f8"}
        m = min(IR.denote(case["tree"]).shape)
        case["k"] = g.integer(1, m)
        case["alg"] = g.pick(["omitted", "Auto", "DenseSVD", "Lanczos"])
    elif rt == "unary":
        # positive definite, or (1 in 3) Hermitian indefinite: functions with a branch cut then leave the real axis
        case["tree"] = g.t_pd(n, 1) if g.integer(1, 3) > 1 else g.t_herm(n, 1)
        case["fn"] = g.pick(["exp", "log", "sqrt", "isqrt", "pow2.5", "pow-2", "apply:cexp", "apply:sin"])
        case["alg"] = g.pick(["omitted", "Auto", "Eig", "Eigh", "Lanczos", "Arnoldi"])
    elif rt == "inv_unitary":
        case["tree"] = g.t_unitary(n, 2)
    elif rt == "pinv_cg":
        r, c = g.integer(0, 3), g.integer(1, 4)  # full column rank by construction
        case["tree"] = g._dense_like(np.vstack([g.dd_matrix(c, "f8"), g.array((r, c), "f8", -2, 2)]), "f8")
    return case


def strategy(tier):
    return st.one_of(tree_cases(tier), tree_cases(tier), routine_cases(tier))


# ----------------------------------------------------------------------------- checks
IMPLIED = {"SelfAdjoint": {"SelfAdjoint", "PSD"}, "PSD": {"PSD"}, "Stiefel": {"Unitary", "Stiefel"}, "Unitary": {"Unitary"}}


def judge_op(out, op, M, site, sub, man="false"):
    """Register every annotation op reports that is false of M. False reports explained by open finding
    F-C05-scalar (a scalar factor inside op invalidates that very annotation) are attributed to it."""
    names = ann_names(op)
    if not np.all(np.isfinite(M)):
        out.notes.append("nonfinite_dense:" + site)  # value defects belong to C09/C14, not to the annotation check
        return names
    bad = names - truth(M)
    if bad:
        scal_bad = TP.scalar_invalidated_annotations(op)
        for b in sorted(bad):
            if (IMPLIED[b] & scal_bad) or (b == "SelfAdjoint" and "SelfAdjoint" in scal_bad):
                out.fail("annot:" + b, "scalar_multiple", "false", f"{sub} {op!r} reports {b}")
            else:
                out.fail("annot:" + b, site, man, f"{sub} {op!r} shape {np.shape(M)} reports {sorted(names)}; true: {sorted(truth(M))}")
    return names


def declared_kinds(tree):
    return {n["a"] for n in IR.nodes(tree) if n["k"] == "ann"}


def check_tree(case, out):
    import cola
    tree = case["tree"]
    R = IR.denote(tree)
    out.label(*TP.tree_labels(tree, R))
    try:
        A = IR.build(tree)
    except Exception as e:
        out.notes.append("build:" + oracle.exc_man(e))
        out.label("build_exception")
        return
    inferred = False

    def judge(op, M, site, sub):
        return judge_op(out, op, M, site, sub)

    # root and every IR subtree, against the reference matrix
    n_nodes = IR.size(tree)
    subtrees = list(IR.nodes(tree)) if n_nodes <= 14 else [tree]
    for sub in subtrees:
        if sub["k"] == "arr":
            continue
        try:
            B = A if sub is tree else IR.build(sub)
        except Exception:
            continue
        names = judge(B, IR.denote(sub).M, oracle.site_of(sub), "subtree")
        if names and sub["k"] != "ann":
            inferred = True
    # every operator object reachable inside the root, against its own dense form
    for op in TP.walk_ops(A):
        if not op.annotations or op is A:
            continue
        try:
            M = op.to_dense()
        except Exception:
            continue
        judge(op, M, "inner:" + type(op).__name__.split("[")[0], "inner")
    out.nontrivial = inferred
    # second half: declaring yields same action, union of annotations, and leaves A alone
    Ann = getattr(cola, case["ann"])
    before_ann = set(A.annotations)
    try:
        before = np.array(A.to_dense())
        B = Ann(A)
        Bd = np.asarray(B.to_dense())
    except Exception as e:
        out.notes.append("wrap:" + oracle.exc_man(e))
        return
    if set(A.annotations) != before_ann:
        out.fail("wrap", "WrapMeta", "input_mutated", f"A.annotations changed from {before_ann} to {A.annotations}")
    if set(B.annotations) != before_ann | {Ann}:
        out.fail("wrap", "WrapMeta", "annotations", f"{B.annotations} expected {before_ann | {Ann}}")
    if type(B) is not type(A) or B.shape != A.shape or B.dtype != A.dtype:
        out.fail("wrap", "WrapMeta", "kind", f"{B!r} vs {A!r}")
    if not (np.array_equal(Bd, before) and np.array_equal(np.asarray(A.to_dense()), before)):
        out.fail("wrap", "WrapMeta", "value", "dense form differs after declaring")
    for nm in ANN:
        if B.isa(getattr(cola, nm)) != (nm in ann_names(B)):
            out.fail("wrap", "isa", "disagrees", nm)
    # round 6: a TRUE declaration leaves every action of the operator as it was - right and left products, transpose and
    # adjoint, for real and complex operands (rules that read the declaration may take short-cuts, the matrix is the same)
    M = np.asarray(R.M)
    if not declaration_true(case["ann"], M) or TP.scalar_invalidated_annotations(A) or TP.contaminated_by_scalar(tree, names=tuple(ANN)):
        return
    out.label("wrap:true_declaration:" + case["ann"])
    out.nontrivial = True
    m_, n_ = M.shape
    dts = [M.dtype, np.dtype(np.complex128)]
    Mabs = np.abs(M)
    for cplx in (False, True):
        dt = np.complex128 if cplx else np.float64
        for nm, fn, ref, bnd in (
                ("matvec", lambda: B @ TP.default_vec(n_, dt), M @ TP.default_vec(n_, dt), Mabs @ np.abs(TP.default_vec(n_, dt))),
                ("matmat", lambda: B @ TP.default_mat(n_, 2, dt), M @ TP.default_mat(n_, 2, dt), Mabs @ np.abs(TP.default_mat(n_, 2, dt))),
                ("lvec", lambda: TP.default_vec(m_, dt) @ B, TP.default_vec(m_, dt) @ M, np.abs(TP.default_vec(m_, dt)) @ Mabs),
                ("lmat", lambda: TP.default_mat(m_, 2, dt, left=True) @ B, TP.default_mat(m_, 2, dt, left=True) @ M, np.abs(TP.default_mat(m_, 2, dt, left=True)) @ Mabs),
                ("T", lambda: B.T @ TP.default_vec(m_, dt), M.T @ TP.default_vec(m_, dt), Mabs.T @ np.abs(TP.default_vec(m_, dt))),
                ("H", lambda: B.H @ TP.default_mat(m_, 2, dt), M.conj().T @ TP.default_mat(m_, 2, dt), Mabs.T @ np.abs(TP.default_mat(m_, 2, dt)))):
            try:
                y = np.asarray(fn())
            except Exception as e:
                if not oracle.is_contract_refusal(e):
                    out.fail("wrap_action:" + nm, "declared:" + case["ann"] + ":" + type(B).__name__.split("[")[0], oracle.exc_man(e), e)
                continue
            bound = np.asarray(bnd, dtype=np.float64)
            bound = bound + (0 if R.exact else 1) * np.max(bound, initial=0)
            res = oracle.compare(y, np.asarray(ref), bound, R.exact, dts + [np.dtype(dt)], eps=IR.tree_eps(tree))
            if res is not None:
                out.fail("wrap_action:" + nm + (":complex_operand" if cplx else ":real_operand"), "declared:" + case["ann"] + ":" + type(B).__name__.split("[")[0], res[0], res[1])
                return


def declaration_true(name, M):
    m_, n_ = M.shape
    Mc = M.astype(np.complex128)
    sc = max(float(np.abs(Mc).max(initial=0)), 1e-300)
    if name in ("SelfAdjoint", "PSD"):
        if m_ != n_ or not np.array_equal(Mc, Mc.conj().T):
            return False
        return name == "SelfAdjoint" or (n_ > 0 and float(np.linalg.eigvalsh(Mc).min()) > 1e-8 * sc)
    if name == "Unitary" and m_ != n_:
        return False
    return bool(np.abs(Mc.conj().T @ Mc - np.eye(n_)).max(initial=0) <= 1e-12)


def _alg(name, n, **kw):
    import cola
    from cola.linalg.svd.svd import DenseSVD
    L = cola.linalg
    if name in ("omitted", None):
        return None
    if name == "Auto":
        return L.Auto()
    if name == "DenseSVD":
        return DenseSVD()
    cls = getattr(L, name)
    if name in ("Lanczos", "Arnoldi"):
        return cls(max_iters=kw.get("max_iters", n + 2), tol=1e-10)
    return cls()


def check_routine(case, out):
    import cola
    from cola.ops import LinearOperator
    L = cola.linalg
    rt = case["routine"]
    tree = case["tree"]
    out.label("routine:" + rt)
    R = IR.denote(tree)
    A = IR.build(tree)
    n = R.shape[0]
    rng = np.random.default_rng(case["seed"])
    v = rng.standard_normal(n).astype(R.dtype if R.dtype.kind != "c" else R.dtype)
    outs = []
    try:
        if rt == "lanczos":
            from cola.linalg.decompositions.lanczos import lanczos
            Q, T, _ = lanczos(cola.SelfAdjoint(A), v, max_iters=case["max_iters"], tol=1e-10)
            outs = [("Q", Q), ("T", T)]
        elif rt == "arnoldi":
            from cola.linalg.decompositions.arnoldi import arnoldi
            Q, H, _ = arnoldi(A, v, max_iters=case["max_iters"], tol=1e-10)
            outs = [("Q", Q), ("H", H)]
        elif rt == "eig":
            alg = _alg(case["alg"], n)
            out.label("alg:" + case["alg"], "kind:" + tree["k"])
            args = (A, case["k"], case["which"]) + (() if alg is None else (alg, ))
            vals, V = L.eig(*args)
            outs = [("V", V)]
        elif rt == "svd":
            from cola.linalg.svd.svd import svd
            m = min(R.shape)
            alg = _alg(case["alg"], m, max_iters=m + 2)
            out.label("alg:" + case["alg"])
            args = (A, case["k"], "LM") + (() if alg is None else (alg, ))
            U, S, V = svd(*args)
            outs = [("U", U), ("S", S), ("V", V)]
        elif rt == "unary":
            alg = _alg(case["alg"], n)
            out.label("alg:" + case["alg"], "fn:" + case["fn"])
            fn = case["fn"]
            pd = bool(np.all(np.linalg.eigvalsh((R.M + R.M.conj().T) / 2) > 0))
            AA = A if A.isa(cola.PSD) or case["alg"] in ("omitted", "Auto", "Eig", "Arnoldi") else (cola.PSD if pd else cola.SelfAdjoint)(A)
            extra = () if alg is None else (alg, )
            if fn.startswith("apply:"):  # user functions, with real and with complex coefficients
                if fn == "apply:cexp":
                    # (another matrix function of the same operator class, built just before with a real-valued Python
                    # function: what one result reports must not depend on what was built earlier in the process)
                    L.apply_unary(lambda x: x * x + 1.0, AA, *extra)
                F = L.apply_unary({"cexp": lambda x: np.exp(1j * x), "sin": np.sin}[fn[6:]], AA, *extra)
            elif fn.startswith("pow"):
                F = L.pow(AA, float(fn[3:]), *extra)
            else:
                F = getattr(L, fn)(AA, *extra)
            outs = [("F", F)]
        elif rt == "inv_unitary":
            outs = [("inv", L.inv(A))]
        elif rt == "pinv_cg":
            outs = [("pinv", L.pinv(A, L.CG(tol=1e-10, max_iters=200)))]
    except Exception as e:
        out.notes.append(f"{rt}:" + oracle.exc_man(e))
        out.label("routine_exception")
        return
    attached = False
    for name, O in outs:
        if not isinstance(O, LinearOperator):
            continue
        for op in TP.walk_ops(O):
            if not op.annotations:
                continue
            try:
                M = np.asarray(op.to_dense())
            except Exception as e:
                out.notes.append(f"{rt}.to_dense:" + oracle.exc_man(e))
                continue
            if M.ndim != 2:
                continue
            attached = True
            site = f"{rt}:{name}" + ("" if op is O else ":" + type(op).__name__.split("[")[0])
            if rt == "eig":
                site += ":" + tree["k"] + ":" + case["alg"]
            if rt in ("svd", "unary"):
                site += ":" + case["alg"]
            shape = "square" if M.shape[0] == M.shape[1] else "nonsquare"
            judge_op(out, op, M, site, rt, man="false:" + shape)
    out.nontrivial = attached


def check(case, out):
    out.label("mode:" + case["mode"])
    if case["mode"] == "tree":
        check_tree(case, out)
    else:
        check_routine(case, out)
    # de-duplicate identical signatures inside one case
    seen, uniq = set(), []
    for f in out.failures:
        s = (f["sub"], f["site"], f["man"])
        if s not in seen:
            seen.add(s)
            uniq.append(f)
    out.failures = uniq
