"""C08 - exact diag / trace return the true (off-)diagonal and trace."""
import numpy as np
from hypothesis import strategies as st

from cvh import gen, ir as IR, oracle, treeprop as TP

ID = "C08"
LEVEL = "exploration"
FUZZ_SECONDS = 240  # thorough tier: 8 parallel Atheris processes driving this module's strategy
BUDGET = {"quick": 12000, "thorough": 200000}
WALL = {"quick": 220, "thorough": 2400}
MIN_CASES = {"quick": 1500, "thorough": 15000}
RULE = ("Hypothesis draws a square operator tree (Dense, Identity, Diagonal, ScalarMul, Sum, BlockDiag with multiplicities, "
        "Kronecker/KronSum with >=2 factors, products, generic matmat/no_dispatch operators, nested), an offset -n<k<n, a size "
        "(1..12 for nested trees; {99,100,101,130,199,200,201,250,320,400} for shallow large ones, i.e. both sides of and not "
        "divisible by the probing block 100) and alg in {omitted, Auto(), Exact(), Exact(bs), Exact(pbar=True)}; oracle = numpy.diag of the "
        "reference matrix (exact equality for integer payloads, which also pins the length) and trace = sum. If the generic "
        "probing rule is selected any exception or mismatch is a violation; a structural rule must return the reference "
        "values or refuse from inside diag_trace.py. Non-trivial: k != 0, or n > 100, or a composite operator."
        " Further: Exact(pbar=True)."
        " Round 5: a small (repeated) block before a larger one with an offset between the two block sizes.")
ASSUMPTIONS = [
    "a refusal is an exception whose innermost cola frame is diag_trace.py (e.g. the documented k != 0 asserts of BlockDiag/Kronecker/KronSum); it is tallied, never a pass of the value check",
    "integer payloads: exact equality of values and length",
]
AVOID = set()
STRUCTURAL = {"Dense", "Identity", "Diagonal", "Sum", "BlockDiag", "ScalarMul", "Kronecker", "KronSum", "Triangular"}
BIG = [99, 100, 101, 130, 199, 200, 201, 250, 320, 400]


def configure(tier, opts):
    AVOID.clear()
    AVOID.update(TP.load_avoid(ID, opts, base=("dup_index", )))


def big_tree(g, n):
    dt = g.dtype()

    def dense(kind="dense"):
        return {"k": kind, "a": gen.enc(g.array((n, n), dt, -2, 2))}

    def diagl():
        return {"k": "diag", "d": gen.enc(g.array((n, ), dt))}

    opts = ["dense", "matmat", "nodisp", "diag", "eye", "smul", "sum", "sum_generic", "prod", "tridiag"]
    if [d for d in gen.divisors(n) if 1 < d < n]:
        opts += ["kron", "kronsum", "bd"]
    k = g.pick(opts)
    if k in ("dense", "matmat"):
        return dense(k)
    if k == "nodisp":
        return {"k": "nodisp", "ch": [g.pick([dense, diagl])()]}
    if k == "diag":
        return diagl()
    if k == "eye":
        return {"k": "eye", "n": n, "dt": dt}
    if k == "smul":
        return g.k_smul(n, n)
    if k == "tridiag":
        return g.k_tridiag(n, n)
    if k == "sum":
        return {"k": "sum", "via": "op", "ch": [dense(), g.pick([diagl, lambda: g.k_smul(n, n), lambda: {"k": "eye", "n": n, "dt": dt}])()]}
    if k == "sum_generic":
        return {"k": "sum", "via": "op", "ch": [dense("matmat"), diagl()]}
    if k == "prod":
        return {"k": "prod", "via": "op", "ch": [dense(), diagl()]}
    a = g.pick([d for d in gen.divisors(n) if 1 < d < n])
    b = n // a
    if k == "bd":
        return {"k": "bd", "ch": [{"k": "dense", "a": gen.enc(g.array((a, a), dt))}], "mult": [b]}
    mk = lambda m: g.pick([lambda: {"k": "dense", "a": gen.enc(g.array((m, m), dt))}, lambda: {"k": "diag", "d": gen.enc(g.array((m, ), dt))}])()  # noqa: E731
    return {"k": k, "via": g.pick(["fn", "ctor"]), "ch": [mk(a), mk(b)]}


@st.composite
def cases(draw, tier):
    g = gen.TreeGen(draw, avoid=AVOID | {"jac", "hess", "kernel", "fft", "hh", "cat", "slice"})
    g.bias_sq = ["diag", "eye", "smul", "dense"]
    big = g.integer(1, 40 if tier == "quick" else 25) == 1
    if big:
        n = g.pick(BIG)
        tree = big_tree(g, n)
    else:
        n = g.integer(1, 12)
        depth = g.pick([0, 1, 1, 2, 2, 3])
        root = g.pick(["any", "any", "sum", "bd", "kron", "kronsum", "prod", "nodisp"])
        if root == "any" or depth == 0 or not g.feasible(root, n, n):
            tree = g.op(n, n, depth)
        else:
            tree = getattr(g, "k_" + root)(n, n, depth - 1)
    k = g.pick([0, 0, None]) if g.boolean() else g.integer(-(n - 1), n - 1)
    if not big and g.integer(1, 10) == 1:
        # block diagonal with a small block (possibly repeated) before a larger one, and an offset between the two sizes:
        # a structural rule has to place the zeros between the blocks correctly - or refuse
        a, b = g.integer(1, 2), g.integer(3, 5)
        tree = {"k": "bd", "ch": [g.k_dense(a, a), g.k_dense(b, b)], "mult": [g.integer(1, 2), 1]}
        n = IR.denote(tree).shape[0]
        k = g.integer(a, b - 1) * g.pick([1, -1])
    alg = g.pick(["omitted", "Auto", "Exact", "Exact(bs)", "Exact(pbar)"])
    return {"tree": tree, "k": k, "alg": alg, "bs": g.pick([1, 7, 50, 100, 1000])}


def strategy(tier):
    return cases(tier)


def make_alg(case):
    import cola
    L = cola.linalg
    a = case["alg"]
    if a == "omitted":
        return None
    if a == "Auto":
        return L.Auto()
    if a == "Exact":
        return L.Exact()
    if a == "Exact(pbar)":
        return L.Exact(pbar=True)
    return L.Exact(bs=case["bs"])


def check(case, out):
    import cola
    L = cola.linalg
    tree, k = case["tree"], case["k"]
    R = IR.denote(tree)
    n = R.shape[0]
    out.label(*TP.tree_labels(tree, R))
    out.label("alg:" + case["alg"], "k:" + ("omitted" if k is None else "0" if k == 0 else "pos" if k > 0 else "neg"),
              "size:" + ("big" if n > 12 else "small"))
    try:
        A = IR.build(tree)
    except Exception as e:
        out.notes.append("build:" + oracle.exc_man(e))
        return
    if "SelfAdjoint" in TP.scalar_invalidated_annotations(A) or TP.contaminated_by_scalar(tree):
        out.inconclusive += 1
        return
    alg = make_alg(case)
    kind = type(A).__name__.split("[")[0]
    structural = kind in STRUCTURAL
    out.label("rule:" + ("structural:" + kind if structural else "generic"))
    out.nontrivial = (k not in (0, None)) or n > 100 or IR.size(tree) >= 2
    kk = 0 if k is None else k
    ref = np.diag(R.M, kk)
    teps = IR.tree_eps(tree)

    def call_diag():
        args = [] if k is None else [k]
        if alg is not None:
            if k is None:
                return L.diag(A, alg=alg)
            args.append(alg)
        return L.diag(A, *args)

    site = kind if structural else "generic:" + kind
    if abs(kk) > 0:
        site += ":k!=0"
    if n > 100:
        site += ":n>100"
    try:
        with oracle.quiet():
            d = call_diag()
    except Exception as e:
        tn, where = oracle.exc_bucket(e)
        if structural and where.startswith("diag_trace.py") and tn in ("AssertionError", "NotImplementedError"):
            out.refusals += 1
            out.label("refused:" + kind)
        else:
            out.fail("diag", site, f"exception:{tn}@{where}", str(e))
        d = None
    if d is not None:
        d = np.asarray(d)
        if d.shape != ref.shape:
            out.fail("diag", site, "length", f"got shape {d.shape} expected {ref.shape}")
        else:
            bound = np.abs(np.diag(R.Mabs, kk)) + (0 if R.exact else 1) * np.max(R.Mabs, initial=0)
            res = oracle.compare(d, ref, bound, R.exact, (R.dtype, ), eps=teps)
            if res is not None:
                out.fail("diag", site, res[0], res[1])
    if kk == 0:
        try:
            with oracle.quiet():
                t = L.trace(A) if alg is None else L.trace(A, alg)
        except Exception as e:
            tn, where = oracle.exc_bucket(e)
            if structural and where.startswith("diag_trace.py") and tn in ("AssertionError", "NotImplementedError"):
                out.refusals += 1
            else:
                out.fail("trace", site, f"exception:{tn}@{where}", str(e))
            return
        tref = np.asarray(np.trace(R.M))
        bound = np.asarray(np.trace(R.Mabs)) + (0 if R.exact else 1) * np.max(R.Mabs, initial=0)
        res = oracle.compare(np.asarray(t), tref, bound, R.exact, (R.dtype, ), eps=teps)
        if res is not None:
            out.fail("trace", site, res[0], res[1])
