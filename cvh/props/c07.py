"""C07 - slogdet / logdet equal the determinant's phase and log-magnitude."""
import numpy as np
from hypothesis import strategies as st

from cvh import gen, ir as IR, oracle, treeprop as TP

ID = "C07"
LEVEL = "exploration"
BUDGET = {"quick": 12000, "thorough": 200000}
WALL = {"quick": 220, "thorough": 2400}
MIN_CASES = {"quick": 1500, "thorough": 15000}
RULE = ("Hypothesis draws a non-singular, well-conditioned operator tree (products of square factors, Kronecker with unequal "
        "factor sizes, BlockDiag with multiplicities, Diagonal, ScalarMul of every size 1..8 and sign/phase, Identity, "
        "Triangular, permutations of both parities, dense general and PD, real and complex; rescaled so |det| lands on both "
        "sides of 1) and a pair (log_alg, trace_alg) from {omitted, Auto, Cholesky (PSD only), LU, Lanczos(max_iters>=n), "
        "Arnoldi(max_iters>=n)} x {omitted, Auto, Exact}. Oracle: numpy.linalg.slogdet of the reference matrix in "
        "float64/complex128; |sign| = 1 (exactly +-1 for real operators); logdet == logabs. Non-trivial: a structural rule, "
        "|det| < 1, negative/complex sign, or a Krylov algorithm. Scalar multiples whose false annotation (open finding "
        "F-C05-scalar) is never read - they sit only below Product / Kronecker / BlockDiag nodes, which recurse factor by "
        "factor - are judged, not excluded."
        " Further: leaf payloads scaled by 10^+-60 (10^+-7 in single precision; not below Unitary declarations); the"
        " lazy inverse returned by cola.linalg.inv as (part of) the operand."
        " Round 5: tridiagonal operators with vanishing leading minors, diagonals graded over 16 decades, SPD"
        " operators of 104 / 130 rows under Lanczos / Arnoldi with Exact / Auto trace (about ten per quick run).")
ASSUMPTIONS = [
    "tolerance: |logabs - ref| <= tol * max(1, |ref|, n), |sign - ref| <= tol with tol = 1e-8 (f64 trees), 2e-3 (trees containing f32), x100 for Lanczos/Arnoldi paths",
    "inputs are non-singular with cond <~ 1e3 by construction; in-contract refusals (Cholesky/Lanczos on operators not declared PSD/SelfAdjoint) are not failures",
    "Lanczos/Arnoldi log algorithms are generated only on trees whose every factor is positive definite: cola evaluates tr log factor by factor in real arithmetic, and log of a real factor with negative eigenvalues (e.g. Diagonal(-2)) is outside the real principal branch",
]
AVOID = set()


def configure(tier, opts):
    AVOID.clear()
    AVOID.update(TP.load_avoid(ID, opts, base=("dup_index", )))


LOG_ALGS = ["omitted", "Auto", "Cholesky", "LU", "Lanczos", "Arnoldi"]
TR_ALGS = ["omitted", "Auto", "Exact"]


def awkward_tridiag(g, n, dt="f8"):
    """non-singular, well-conditioned tridiagonal matrices whose leading principal minors vanish (or nearly): elimination
    without row exchanges breaks down on them although the matrix is harmless"""
    n = max(2, n - n % 2)  # even size
    kind = g.pick(["zero_diag", "tiny_first", "ones_block"])
    al = np.ones(n - 1)
    ga = np.ones(n - 1)
    if kind == "zero_diag":       # path-graph / hopping matrix: eigenvalues 2 cos(k pi / (n + 1)), none zero for even n
        be = np.zeros(n)
    elif kind == "tiny_first":
        be = 3.0 + np.arange(n) % 2
        be[0] = 1e-11
    else:                          # leading block [[1, 1], [1, 1]]
        be = 3.0 + np.arange(n) % 2
        be[0] = be[1] = 1.0
    sg = np.where(np.arange(n - 1) % 3 == 0, -1.0, 1.0)
    return {"k": "tridiag", "al": gen.enc((al * sg).astype(gen.NPDT[dt])), "be": gen.enc(be.astype(gen.NPDT[dt])), "ga": gen.enc(ga.astype(gen.NPDT[dt]))}


@st.composite
def cases(draw, tier):
    # (decided by a hash of a drawn integer: Hypothesis favours boundary values, so `integers(1, N) == 1` is far more
    # frequent than 1 / N and these cases take seconds each)
    if (((draw(st.integers(0, 2**31 - 1)) + 977) * 2654435761) >> 9) % (600 if tier == "quick" else 300) == 0:
        # more rows than one probing block of the exact trace (100): tr log A through a Krylov log algorithm
        return {"mode": "big", "n": draw(st.sampled_from([104, 104, 130])), "seed": draw(st.integers(0, 10**5)),
                "log_alg": draw(st.sampled_from(["Lanczos", "Arnoldi"])), "trace_alg": draw(st.sampled_from(["Exact", "Auto", "omitted"])),
                "fn": draw(st.sampled_from(["slogdet", "logdet"]))}
    g = gen.TraitGen(draw, avoid=AVOID | {"fft", "hh"})
    if g.integer(1, 12) == 1:
        # round 6: a product whose factors carry scalar multiples of extreme size that cancel - every factor, the
        # represented matrix and the log-determinant are ordinary, only products of the scalars alone leave the range
        g8 = gen.TraitGen(draw, avoid=AVOID | {"fft", "hh"}, dtypes=("f8", "c16"))
        n = g8.integer(1, 5)
        e = g8.pick([170, 160, 120])
        exps = g8.pick([[-e, -e, e, e], [e, e, -e, -e], [-e, -e, -e, e, e, e], [e, -e], [-e, e, -e, e], [e, e, e]])
        sgn = [g8.pick([1.0, 1.0, -1.0]) for _ in exps]
        xs = [g8.t_inv(n, g8.pick([0, 0, 1])) for _ in exps]
        # (the scalar takes the dtype of its operator: 1e+-30 for single-precision kinds such as a default Permutation)
        exps = [ex if IR.tree_eps(x) < 1e-10 and IR.denote(x).dtype.itemsize >= 8 else (30 if ex > 0 else -30) for ex, x in zip(exps, xs)]
        ch = [{"k": "scale", "c": {"t": "float", "v": sg * 10.0 ** ex}, "side": g8.pick(["l", "l", "r"]), "ch": [x]}
              for sg, ex, x in zip(sgn, exps, xs)]
        return {"mode": "xscal", "tree": {"k": "prod", "via": "op", "ch": ch}, "log_alg": g8.pick(["omitted", "Auto", "LU"]),
                "trace_alg": "omitted", "fn": g8.pick(["slogdet", "logdet"]), "declare": False, "leaf_scale": 0, "twice": False}
    n = g.integer(1, 8)
    depth = g.pick([0, 1, 1, 2, 2, 3])
    trait = g.pick(["inv", "inv", "pd", "special"])
    if trait == "special":
        k = g.pick(["perm", "smul", "tri", "kron", "bd", "graded", "graded", "sumdense"])
        if k == "sumdense":
            # a sum whose first member is a plain dense leaf: row-dominant matrix + non-negative diagonal / multiple of I
            dt = g.dtype()
            a = g.dd_matrix(n, dt, -1, 1)
            a = a * np.sign(np.diag(a).real + (np.diag(a).real == 0))[:, None]  # positive diagonal, still row dominant
            second = g.pick([{"k": "diag", "d": gen.enc(g.array((n, ), dt, 0, 3))}, {"k": "smul", "c": {"t": "float", "v": 2.0}, "n": n, "dt": dt},
                             {"k": "dense", "a": gen.enc(np.diag(np.arange(1, n + 1)).astype(gen.NPDT[dt]))}])
            tree = {"k": "sum", "via": g.pick(["op", "ctor"]), "ch": [{"k": "dense", "a": gen.enc(a.astype(gen.NPDT[dt]))}, second]}
            k = "done"
        if k == "graded":
            # Diagonal / Triangular whose diagonal is graded over 16 decades (6 in single precision): nothing vanishes
            dt = g.dtype()
            span = 3 if dt in ("f4", "c8") else 8
            d = np.array([g.pick([-1.0, 1.0, 2.0, -3.0]) * 10.0 ** g.integer(-span, span) for _ in range(n)])
            if n >= 2:
                d[0], d[-1] = 2.0 * 10.0 ** span, -3.0 * 10.0 ** -span
            if dt in gen.CPLX:
                d = d * np.exp(1j * np.array([g.integer(0, 5) for _ in range(n)]))
            if g.boolean():
                tree = {"k": "diag", "d": gen.enc(d.astype(gen.NPDT[dt]))}
            else:
                lower = g.boolean()
                off = g.array((n, n), dt, -1, 1) * min(abs(d))
                T = (np.tril(off, -1) if lower else np.triu(off, 1)) + np.diag(d)
                tree = {"k": "tri", "a": gen.enc(T.astype(gen.NPDT[dt])), "lower": lower}
            k = "done"
        if k == "done":
            pass
        elif k == "perm":
            tree = g.k_perm(n, n)
        elif k == "smul":
            dt = g.dtype()
            c = g.pick([{"t": "float", "v": -2.0}, {"t": "float", "v": 0.5}, {"t": "int", "v": -1}, {"t": "float", "v": 3.0}] +
                       ([{"t": "complex", "v": [0, 1]}, {"t": "complex", "v": [1, -1]}, {"t": "complex", "v": [0, -0.5]}] if dt in gen.CPLX else []))
            tree = {"k": "smul", "c": c, "n": n, "dt": dt}
        elif k == "tri":
            tree = g.t_inv(n, 0)
            while tree["k"] != "tri":
                lower = g.boolean()
                a = g.dd_matrix(n, g.dtype(), -1, 1)
                tree = {"k": "tri", "a": gen.enc(np.tril(a) if lower else np.triu(a)), "lower": lower}
        elif k == "kron" and g._split2(n):
            a = g._split2(n)
            tree = {"k": "kron", "via": "ctor", "ch": [g.t_inv(a, 1), g.t_inv(n // a, 1)]}
        else:
            rs, mult = g._bd_parts(n)
            tree = {"k": "bd", "ch": [g.t_inv(s, 1) for s in rs], "mult": mult}
    else:
        tree = g.sq(n, trait, depth)
    if trait != "pd" and g.integer(1, 10) == 1:
        tree = awkward_tridiag(g, n, g.pick(["f8", "c16"]))
        if g.boolean():
            tree = g.pick([lambda t: {"k": "kron", "via": "ctor", "ch": [t, g.t_inv(2, 0)]}, lambda t: {"k": "bd", "ch": [t, g.t_inv(2, 0)], "mult": None},
                           lambda t: {"k": "scale", "c": {"t": "float", "v": -2.0}, "side": "l", "ch": [t]}])(tree)
        n = IR.denote(tree).shape[0]
    if g.integer(1, 8) == 1:
        # the lazy inverse returned by cola.linalg.inv as (part of) the operand: det(A^-1) = 1 / det(A)
        # (the inverse of a positive definite operator is positive definite; a product with a general factor is not)
        tree = {"k": "inv", "ch": [tree]} if g.boolean() or trait == "pd" else {"k": "prod", "via": "op", "ch": [{"k": "inv", "ch": [tree]}, g.t_inv(n, 1)]}
    # push |det| below / above one
    sc = g.pick([None, None, 0.25, 0.5, 4.0])
    if sc is not None and tree["k"] != "perm":
        tree = {"k": "scale", "c": {"t": "float", "v": sc}, "side": "l", "ch": [tree]}
    la = g.pick(LOG_ALGS)
    if la in ("Lanczos", "Arnoldi"):
        # the Krylov paths compute tr log A factor by factor with real arithmetic for real operators: they are exercised
        # on trees all of whose factors are positive definite (no A^H A of indefinite A, no negative scalars)
        g2 = gen.TraitGen(draw, avoid=AVOID | {"fft", "hh", "T"})
        tree = g2.t_pd(n, depth)
        trait = "pd"
        if sc is not None:
            tree = {"k": "scale", "c": {"t": "float", "v": sc}, "side": "l", "ch": [tree]}
    if la in ("Cholesky", "Lanczos") and trait != "pd":
        la = g.pick(["omitted", "Auto", "LU"])
    # payload scale of the dense / triangular leaves: the determinant itself may leave the floating point range (10^-480
    # for 8 x 8 in double precision) while sign and log-magnitude stay perfectly representable
    # (not together with an inverse operand: rows of 1e+60 next to rows of 1e-7 defeat the pivoting of the dense reference)
    lscale = 0 if la in ("Lanczos", "Arnoldi") or "inv" in IR.kinds(tree) else g.pick([0, 0, 0, 0, -1, 1])
    return {"tree": tree, "log_alg": la, "trace_alg": g.pick(TR_ALGS), "declare": g.boolean(), "fn": g.pick(["slogdet", "slogdet", "logdet"]),
            "leaf_scale": lscale, "twice": g.boolean()}  # twice: the same operator object is evaluated a second time


def strategy(tier):
    return cases(tier)


def make_algs(case, n):
    import cola
    L = cola.linalg
    la = {"omitted": None, "Auto": L.Auto(), "Cholesky": L.Cholesky(), "LU": L.LU(),
          "Lanczos": L.Lanczos(max_iters=n + 2, tol=1e-12), "Arnoldi": L.Arnoldi(max_iters=n, tol=1e-12)}[case["log_alg"]]
    ta = {"omitted": None, "Auto": L.Auto(), "Exact": L.Exact()}[case["trace_alg"]]
    return la, ta


def scale_leaves(node, sign):
    """copy of the tree with every dense-like payload multiplied by 10^(sign * 60) (10^(sign * 7) in single precision)"""
    node = dict(node)
    if node["k"] == "ann" and node.get("a") in ("Unitary", "Stiefel"):
        return node  # (a rescaled unitary matrix is not unitary any more: the declaration would become false)
    if "a" in node and node["k"] in ("dense", "tri", "lazify", "matmat"):
        a = IR.dec(node["a"])
        e = 7 if a.dtype in (np.float32, np.complex64) else 60
        node["a"] = gen.enc((a * a.dtype.type(10.0) ** (sign * e)).astype(a.dtype))
    if "ch" in node:
        node["ch"] = [scale_leaves(c, sign) for c in node["ch"]]
    return node


def check_big(case, out):
    import cola
    L = cola.linalg
    n = case["n"]
    rng = np.random.default_rng(case["seed"])
    Q, _ = np.linalg.qr(rng.standard_normal((n, n)))
    M = (Q * (0.3 + rng.random(n))) @ Q.T
    M = (M + M.T) / 2
    A = cola.PSD(cola.ops.Dense(M))
    la = L.Lanczos(max_iters=n + 2, tol=1e-12) if case["log_alg"] == "Lanczos" else L.Arnoldi(max_iters=n, tol=1e-12)
    kw = {"log_alg": la}
    if case["trace_alg"] != "omitted":
        kw["trace_alg"] = {"Exact": L.Exact, "Auto": L.Auto}[case["trace_alg"]]()
    out.label("mode:big", "log_alg:" + case["log_alg"], "trace_alg:" + case["trace_alg"])
    out.nontrivial = True
    site = f"big:{case['log_alg']}:{case['trace_alg']}"
    rs, rl = np.linalg.slogdet(M)
    try:
        if case["fn"] == "slogdet":
            s_, l = L.slogdet(A, **kw)
        else:
            s_, l = None, L.logdet(A, **kw)
    except Exception as e:
        out.fail("call", site, oracle.exc_man(e), e)
        return
    l = complex(np.asarray(l).reshape(-1)[0])
    if not np.isfinite(l) or abs(l.real - rl) > 1e-6 * max(1.0, abs(rl), n) or abs(l.imag) > 1e-6:
        out.fail("logabs", site, "value", f"logabs={l} expected {rl:.10g} (n={n})")
    if s_ is not None and abs(complex(np.asarray(s_).reshape(-1)[0]) - complex(rs)) > 1e-6:
        out.fail("sign", site, "value", f"sign={s_} expected {rs}")


def check(case, out):
    import cola
    L = cola.linalg
    if case.get("mode") == "big":
        return check_big(case, out)
    tree = case["tree"]
    if case.get("leaf_scale"):
        tree = scale_leaves(tree, case["leaf_scale"])
        out.label("leaf_scale:%+d" % case["leaf_scale"])
    xscal = case.get("mode") == "xscal"
    if xscal:
        # reference factor by factor (the dense product of the factors would leave the floating point range)
        out.label("mode:extreme_scalar_factors")
        rs_x, rl_x = 1.0 + 0j, 0.0
        for chd in tree["ch"]:
            Rc = IR.denote(chd["ch"][0])
            s1, l1 = np.linalg.slogdet(Rc.M.astype(np.complex128 if Rc.dtype.kind == "c" else np.float64))
            c = float(chd["c"]["v"])
            rs_x, rl_x = rs_x * s1 * np.sign(c) ** Rc.shape[0], rl_x + l1 + Rc.shape[0] * np.log(abs(c))
        R = IR.denote(tree["ch"][0]["ch"][0])
        if any(IR.denote(chd["ch"][0]).dtype.kind == "c" for chd in tree["ch"]):
            R = [IR.denote(chd["ch"][0]) for chd in tree["ch"] if IR.denote(chd["ch"][0]).dtype.kind == "c"][0]
    else:
        R = IR.denote(tree)
        out.label(*TP.tree_labels(tree, R))
    n = R.shape[0]
    out.label("log_alg:" + case["log_alg"], "trace_alg:" + case["trace_alg"], "fn:" + case["fn"])
    try:
        A = IR.build(tree)
    except Exception as e:
        # an `inv` operand is factorised when it is built: below a scalar multiple that falsely reports PSD (open finding
        # F-C05-scalar) the automatic Cholesky fails there already (seen in a thorough run at seed 11)
        if TP.contaminated_by_scalar(tree, ("PSD", "SelfAdjoint"), transparent=()):
            out.inconclusive += 1
            out.label("contaminated:F-C05-scalar")
        else:
            out.fail("call", "build:" + tree["k"], oracle.exc_man(e), e)
        return
    # open finding F-C05-scalar: a scalar multiple falsely reporting PSD / SelfAdjoint matters only where that annotation
    # is read, i.e. below a node without a structural slogdet rule (Sum, Transpose, ...); Product (square factors),
    # Kronecker and BlockDiag recurse factor by factor and never read it, so those cases stay decidable
    from cola.ops import BlockDiag, Kronecker, Product
    if (TP.scalar_invalidated_annotations(A, (Product, Kronecker, BlockDiag)) & {"PSD", "SelfAdjoint"}
            or TP.contaminated_by_scalar(tree, ("PSD", "SelfAdjoint"), transparent=("prod", "kron", "bd", "scale", "neg", "div"))):
        out.inconclusive += 1
        out.label("contaminated:F-C05-scalar")
        return
    la, ta = make_algs(case, n)
    if case["log_alg"] in ("Cholesky", "Lanczos") and not A.isa(cola.PSD):
        if case["declare"] or True:
            A = cola.PSD(A)
    kind = type(A).__name__.split("[")[0]
    if xscal:
        rs, rl = (rs_x if R.dtype.kind == "c" else rs_x.real), rl_x
    else:
        M = R.M.astype(np.complex128 if R.dtype.kind == "c" else np.float64)
        rs, rl = np.linalg.slogdet(M)
    out.label("det:" + ("<1" if rl < 0 else ">=1"), "sign:" + ("complex" if abs(complex(rs).imag) > 1e-9 else "neg" if complex(rs).real < 0 else "pos"))
    krylov = case["log_alg"] in ("Lanczos", "Arnoldi")
    out.nontrivial = kind not in ("Dense", "LinearOperator") or rl < 0 or abs(complex(rs) - 1) > 1e-9 or krylov
    f32 = IR.tree_eps(tree) > 1e-10
    tol = (2e-3 if f32 else 1e-8) * (100 if krylov else 1)
    kw = {}
    if la is not None:
        kw["log_alg"] = la
    if ta is not None:
        kw["trace_alg"] = ta
    site = f"{kind}:{case['log_alg']}"
    if kind == "Permutation":
        site += ":odd" if rs < 0 else ":even"
    site0 = site
    for rep, fn_ in enumerate([case["fn"]] + ([("logdet" if case["fn"] == "slogdet" else "slogdet")] if case.get("twice") else [])):
        if rep:
            # the same operator object evaluated once more (through the other entry point): still the determinant
            out.label("second_call")
            site = site0 + ":second_call"
            if out.failures:
                return
        try:
            if fn_ == "slogdet":
                s, l = L.slogdet(A, **kw)
            else:
                s, l = None, L.logdet(A, **kw)
        except Exception as e:
            if oracle.is_contract_refusal(e):
                out.refusals += 1
                out.notes.append("refusal:" + oracle.exc_bucket(e)[1])
                return
            out.fail("call", site, oracle.exc_man(e), e)
            return
        l = complex(np.asarray(l).reshape(-1)[0]) if np.size(l) == 1 else None
        if l is None or not np.isfinite(l):
            out.fail("logabs", site, "nonfinite", f"logabs={l}")
            return
        if abs(l.imag) > tol * max(1, abs(rl)):
            out.fail("logabs", site, "complex", f"logabs={l}")
        if abs(l.real - rl) > tol * max(1.0, abs(rl), n):
            out.fail("logabs", site, "value", f"logabs={l.real:.10g} expected {rl:.10g} (n={n})")
        if s is not None:
            s = complex(np.asarray(s).reshape(-1)[0])
            if not np.isfinite(s) or abs(s - complex(rs)) > max(tol, 1e-6):
                out.fail("sign", site, "value", f"sign={s} expected {complex(rs)}")
            elif R.dtype.kind != "c" and abs(s.imag) > 0:
                out.fail("sign", site, "complex_for_real", f"sign={s}")
