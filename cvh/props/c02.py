"""C02 - transpose, adjoint and left-multiplication agree with the represented matrix."""
import numpy as np
from hypothesis import strategies as st

from cvh import gen, ir as IR, oracle, treeprop as TP

ID = "C02"
LEVEL = "exploration"
BUDGET = {"quick": 20000, "thorough": 500000}
WALL = {"quick": 200, "thorough": 2400}
MIN_CASES = {"quick": 2000, "thorough": 20000}
RULE = ("Hypothesis draws a C01-style operator tree (complex payloads and complex Hermitian leaves declared SelfAdjoint/PSD "
        "emphasised), a tower w in {T,H}^(1..3) applied through the public .T/.H properties, and left operands (1-D, 2-D). "
        "Oracle: the same transposes/conjugations and left products on the NumPy reference matrix. Non-trivial: complex "
        "payload, or a tree containing a kind whose transpose is not the Dense rule. distinct = distinct case hashes. The "
        "annotated emphasis also draws structured operators with true declarations on leaves and composites (Kronecker, "
        "BlockDiag, Tridiagonal, sums; Hermitian / PD / unitary by construction) under T / H / product / sum / slices whose two "
        "index arrays hold the same positions in equal or different order."
        " Further: congruence products B K1 (K2) B^H with a lazy B, Householder reflectors with complex coefficients,"
        " a true declaration made on a derived operator (i K for skew-Hermitian K) before K itself is used,"
        " column-major operands."
        " Round 5: kernel functions that are not symmetric in their arguments, Tridiagonal operators built from one"
        " array object for both bands.")
ASSUMPTIONS = [
    "NumPy backend with harness shim; the generic x @ A of kinds without _rmatmat runs through the shim's linear_transpose",
    "A.T.T / A.H.H are compared by value, not by object identity",
    "exact equality for integer payloads while magnitudes are exactly representable, else |err| <= 1e3*eps*|x||A|",
]
AVOID = set()


def configure(tier, opts):
    AVOID.clear()
    AVOID.update(TP.load_avoid(ID, opts, base=("dup_index", )))


@st.composite
def cases(draw, tier):
    emph = draw(st.sampled_from(["any", "any", "complex", "ann"]))
    g = gen.TraitGen(draw, avoid=AVOID, dtypes=gen.CPLX if emph == "complex" else gen.ALLDT)
    if emph == "ann" and g.boolean():
        # structured operators carrying true declarations (leaves and composites), alone or under one combinator
        tree = g.annotated(g.integer(1, 6), g.pick([0, 1, 1, 2]))
    elif emph == "ann":
        n = g.integer(1, 6)
        tree = g.k_ann(n, n, 0)
        if g.boolean():
            tree = g.pick([lambda t: {"k": "prod", "via": "op", "ch": [t, g.op(n, g.integer(1, 4), 1)]},
                           lambda t: {"k": "sum", "via": "op", "ch": [t, g.op(n, n, 1)]},
                           lambda t: {"k": "kron", "via": "fn", "ch": [t, g.op(g.integer(1, 3), g.integer(1, 3), 1)]},
                           lambda t: {"k": "bd", "ch": [t, g.op(g.integer(1, 3), g.integer(1, 3), 1)], "mult": None}])(tree)
    else:
        r, c = TP.target_shape(g)
        depth = g.pick([0, 1, 1, 2, 2, 3] + ([4] if tier == "thorough" else []))
        tree = g.op(r, c, depth)
    derived = None
    if emph == "ann" and g.integer(1, 4) == 1:
        # a skew-Hermitian operator K (no declaration): i K is Hermitian, and declaring THAT (a true declaration on a
        # derived operator) must leave K itself alone
        def skew(m):
            B = g.array((m, m), g.pick(gen.CPLX), -2, 2)
            return {"k": g.pick(["dense", "matmat"]), "a": gen.enc(((B - B.conj().T)).astype(B.dtype))}
        n = g.integer(1, 5)
        tree = skew(n) if g.boolean() else {"k": "bd", "ch": [skew(n), skew(g.integer(1, 3))], "mult": None}
        derived = {"c": [0.0, 1.0], "a": "SelfAdjoint"}
    tower = "".join(draw(st.lists(st.sampled_from("TH"), min_size=1, max_size=3)))
    r, c = IR.denote(tree).shape
    rt, ct = (c, r) if len(tower) % 2 else (r, c)
    return {"tree": tree, "tower": tower, "xl": g.left_operand(r, ranks=(1, )), "Xl": g.left_operand(r, ranks=(2, )),
            "y": g.operand(ct, ranks=(1, 2)), "derived": derived}


def strategy(tier):
    return cases(tier)


def apply_ref(M, tower):
    for w in tower:
        M = M.T if w == "T" else M.conj().T
    return M


def eval_case(tree, tower, xl, Xl, y, derived=None):
    R = IR.denote(tree)
    ck = TP.Checker(R.exact, IR.tree_eps(tree))
    try:
        A = IR.build(tree)
        if derived:
            import cola
            getattr(cola, derived["a"])(complex(*derived["c"]) * A)  # a declaration on a derived operator, result unused
    except Exception as e:
        ck.add("build", oracle.exc_man(e), e)
        return ck.fails, R
    if "SelfAdjoint" in TP.scalar_invalidated_annotations(A) or TP.contaminated_by_scalar(tree):
        return "contaminated", R  # open finding F-C05-scalar (recorded under C05) makes .T/.H short-cuts wrong
    # left products
    for sub, x in (("lvec", xl), ("lmat", Xl)):
        dt = np.result_type(R.dtype, x.dtype)
        ck.value(sub, lambda x=x: x @ A, x.astype(dt) @ R.M.astype(dt), np.abs(x) @ R.Mabs, (dt, A.dtype), dt)
    # towers (every prefix, so that A.T.T / A.H.H / mixed are all covered)
    for i in range(1, len(tower) + 1):
        w = tower[:i]
        Mw = apply_ref(R.M, w)
        Mabs = R.Mabs.T if i % 2 else R.Mabs
        try:
            B = A
            for ch in w:
                B = B.T if ch == "T" else B.H
        except Exception as e:
            ck.add("tower:" + w, oracle.exc_man(e), e)
            break
        if tuple(B.shape) != Mw.shape:
            ck.add("tower:" + w, "shape", f"{B.shape} expected {Mw.shape}")
            break
        bd = Mabs + (0 if R.exact else 1) * np.max(Mabs, initial=0)
        ck.value("dense:" + w, lambda B=B: B.to_dense(), Mw, bd, (R.dtype, B.dtype), R.dtype)
        if i == len(tower):
            dt = np.result_type(R.dtype, y.dtype)
            ck.value("apply:" + w, lambda B=B: B @ y, Mw.astype(dt) @ y.astype(dt), Mabs @ np.abs(y), (dt, B.dtype), dt)
    return ck.fails, R


def check(case, out):
    tree, tower = case["tree"], case["tower"]
    xl, Xl, y = IR.dec(case["xl"]), IR.dec(case["Xl"]), IR.dec(case["y"])
    fails, R = eval_case(tree, tower, xl, Xl, y, case.get("derived"))
    if case.get("derived"):
        out.label("declared_on_derived")
    out.label(*TP.tree_labels(tree, R))
    out.label("tower:" + tower)
    ks = set(IR.kinds(tree))
    if fails == "contaminated":
        out.label("contaminated:F-C05-scalar")
        out.inconclusive += 1
        return
    out.nontrivial = R.dtype.kind == "c" or bool(ks - {"dense", "lazify"})
    if not fails:
        return

    def operands(sub):
        r, c = IR.denote(sub).shape
        ct = r if len(tower) % 2 else c
        yy = TP.default_vec(ct, y.dtype) if y.ndim == 1 else TP.default_mat(ct, y.shape[1], y.dtype)
        return TP.default_vec(r, xl.dtype), TP.default_mat(r, Xl.shape[0], Xl.dtype, left=True), yy

    def refails(s):
        f = eval_case(s, tower, *operands(s), case.get("derived") if s is tree else None)[0]
        return [] if f == "contaminated" else f

    TP.report(out, tree, fails, lambda s: bool(refails(s)), refails)
