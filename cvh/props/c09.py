"""C09 - matrix functions exp/log/sqrt/isqrt/pow/apply_unary equal f of the matrix."""
import numpy as np
import scipy.linalg as sla
from hypothesis import strategies as st

from cvh import krylov_ref as KR, oracle, treeprop as TP

ID = "C09"
LEVEL = "exploration"
BUDGET = {"quick": 5000, "thorough": 80000}
WALL = {"quick": 240, "thorough": 2700}
MIN_CASES = {"quick": 600, "thorough": 6000}
RULE = ("Hypothesis draws a controlled-spectrum operator: PD leaves Q diag(lam) Q^H, general leaves X diag(lam) X^-1 with "
        "Re(lam) > 0 and cond(X) <= 5 (real with conjugate pairs, or complex), singular PSD leaves (exp only), complex "
        "Hermitian; wrapped by Diagonal, BlockDiag with multiplicities, Identity, ScalarMul, Transpose, Adjoint, KronSum (exp) "
        "and Kronecker (pow/sqrt/isqrt), nested up to depth 2; a function in {exp, log, sqrt, isqrt, pow(a) for a in "
        "{-2,-1,-.5,0,.5,1,2,3,9,10,2.5}, apply_unary(f) for f in {sin, x^2+1, 1/(1+x), exp(ix)}}; an algorithm in {omitted, Auto, Eig, "
        "Eigh, Lanczos, Arnoldi} with max_iters in {n, n+3, default}; a 1-D or multi-column operand. Oracle: SciPy's "
        "Schur-based expm/logm/sqrtm/fractional_matrix_power/funm applied to the dense reference matrix, times the operand; "
        "plus sqrt(A) applied twice == A v; in half of the cases the returned operator is first applied to an eigenvector or "
        "a zero operand and must still be right for the drawn one. Non-trivial: a structural rule, a Krylov algorithm, a non-Hermitian or complex "
        "input, or a non-integer exponent."
        " Further: float32 / complex64 payloads (2e-3 relative), negative multiples of declared-PSD operators for exp"
        " / apply_unary.")
ASSUMPTIONS = [
    "tolerance: |y - f(M) v| <= 1e-7 * cond(X) * |f(M)|_2 |v| (float64 payloads); Krylov algorithms are run to the full Krylov dimension with tol = 1e-12",
    "AssertionError raised by a selected rule (Eigh/Lanczos on operators not declared SelfAdjoint/PSD) is an in-contract refusal",
    "spectra: |lam| in [0.5, 4], well separated from the branch cut (|arg lam| <= 1.2)",
]
FUNCS = ["exp", "log", "sqrt", "isqrt", "pow", "pow", "apply_unary"]
EXPS = [-2, -1, -0.5, 0, 0.5, 1, 2, 3, 9, 10, 2.5]
UNARY = ["sin", "sq1", "inv1", "cexp"]
ALGS = ["omitted", "Auto", "Eig", "Eigh", "Lanczos", "Arnoldi"]
AVOID = set()


def configure(tier, opts):
    AVOID.clear()
    AVOID.update(TP.load_avoid(ID, opts))


# ----------------------------------------------------------------------------- spec generation
@st.composite
def spec(draw, n, depth, fn, herm_only):
    """JSON spec of an n x n operator with spectrum in the domain of fn."""
    kinds = ["pd", "pd", "diag", "eye", "smul"]
    if not herm_only:
        kinds += ["gen", "gen", "T", "H"]
    if fn == "exp" and n >= 2:
        kinds += ["spsd"]
    if fn in ("exp", "exp_nosing", "apply_unary") and depth > 0:
        kinds += ["neg"]  # a negative multiple (spectrum on the negative axis, where these functions are defined)
    if fn in ("sqrt", "isqrt", "log", "pow", "exp", "exp_nosing", "apply_unary"):
        kinds += ["cmul"]  # c * (M / c): the inner operator alone is outside the domain, the multiple is inside
    if depth > 0:
        kinds += ["bd", "bd"]
        if any(1 < d < n for d in range(2, n) if n % d == 0):
            if fn in ("exp", "exp_nosing"):
                kinds += ["kronsum", "kronsum"]
            if fn in ("pow", "sqrt", "isqrt"):
                kinds += ["kron", "kron"]
    k = draw(st.sampled_from(kinds))
    seed = draw(st.integers(0, 10**6))
    if k in ("pd", "spsd"):
        return {"k": k, "n": n, "seed": seed, "cplx": draw(st.booleans()), "declare": draw(st.sampled_from(["PSD", "SelfAdjoint", "none"])),
                "repeated": draw(st.integers(1, 3)) == 1, "single": draw(st.integers(1, 5)) == 1}
    if k == "gen":
        return {"k": k, "n": n, "seed": seed, "cplx": draw(st.booleans()), "single": draw(st.integers(1, 6)) == 1}
    if k == "cmul":
        cs = [[-2.0, 0.0], [-0.5, 0.0], [-1.0, 0.0]] + ([] if herm_only else [[2 * np.cos(0.9 * np.pi), 2 * np.sin(0.9 * np.pi)], [np.cos(0.8 * np.pi), -np.sin(0.8 * np.pi)], [0.0, 1.5]])
        inner = {"k": "pd" if herm_only or draw(st.booleans()) else "gen", "n": n, "seed": seed, "cplx": draw(st.booleans()), "declare": "none",
                 "repeated": False, "single": False}
        return {"k": "cmul", "c": draw(st.sampled_from(cs)), "ch": [inner]}
    if k in ("diag", "eye", "smul"):
        return {"k": k, "n": n, "seed": seed}
    if k in ("T", "H"):
        return {"k": k, "ch": [draw(spec(n, depth - 1, fn, herm_only))]}
    if k == "neg":
        return {"k": "neg", "c": draw(st.sampled_from([-1.0, -1.5, -0.5])), "ch": [draw(spec(n, 0, fn, True))]}
    if k == "bd":
        parts = []
        rem = n
        while rem > 0:
            s = draw(st.integers(1, rem))
            m = draw(st.integers(1, max(1, min(3, rem // s))))
            parts.append((s, m))
            rem -= s * m
        return {"k": "bd", "mult": [m for _, m in parts], "ch": [draw(spec(s, depth - 1, fn, herm_only)) for s, _ in parts]}
    a = draw(st.sampled_from([d for d in range(2, n) if n % d == 0]))
    # Kronecker / KronSum factors are kept PD so that the spectrum of the composite stays in the domain
    return {"k": k, "ch": [draw(spec(a, 0, fn, True)), draw(spec(n // a, 0, fn, True))]}


@st.composite
def cases(draw, tier):
    fn = draw(st.sampled_from(FUNCS))
    alg = draw(st.sampled_from(ALGS))
    n = draw(st.integers(1, 8 if tier == "quick" else 14))
    herm_only = alg in ("Eigh", "Lanczos")
    if alg == "Arnoldi" and "arnoldi_singular_padded" in AVOID and fn == "exp":
        fn = "exp_nosing"  # open finding F-C09-arnoldi-singular-padded: no singular leaves under Arnoldi
    case = {"fn": fn, "alg": alg, "n": n, "tree": draw(spec(n, draw(st.sampled_from([0, 1, 1, 2])), fn, herm_only)),
            "vseed": draw(st.integers(0, 10**6)), "ncol": draw(st.sampled_from([0, 0, 1, 3])),
            "max_iters": draw(st.sampled_from(["n", "n", "n+3", "default"])), "zero_col": draw(st.integers(1, 6)) == 1,
            # the returned operator is applied to another operand first (an eigenvector: smallest Krylov space; or zero)
            "pre": draw(st.sampled_from(["none", "none", "eigvec", "zero"])),
            # round 6: the same operator object first gets the same function through another dense algorithm
            "first_alg": draw(st.sampled_from(["none", "none", "none", "Eig", "Eig", "Auto", "Eigh"]))}
    if fn == "exp_nosing":
        case["fn"] = fn = "exp"
    if fn == "pow":
        case["a"] = draw(st.sampled_from(EXPS))
    if fn == "apply_unary":
        case["f"] = draw(st.sampled_from(UNARY))
        if case["f"] == "inv1" and "neg" in kinds_of(case["tree"]):
            case["f"] = "sq1"  # 1 / (1 + x) has its pole on the negative axis
    return case


def strategy(tier):
    return cases(tier)


# ----------------------------------------------------------------------------- build spec -> (cola op, dense M, cond)
def build(s):
    import cola
    ops = cola.ops
    k = s["k"]
    if k in ("pd", "spsd"):
        n = s["n"]
        rng = np.random.default_rng(s["seed"])
        lam = 0.5 + 3.5 * rng.random(n)
        if s.get("repeated"):  # repeated eigenvalues with a rotated (not axis-aligned) eigenspace
            lam = rng.choice(np.array([0.75, 2.0, 3.5]), size=n)
        if k == "spsd":
            lam[: max(1, n // 3)] = 0.0
        M, Q = KR.hermitian(lam, s["seed"], s["cplx"])
        if s.get("single"):  # float32 / complex64 payload (the reference keeps its rounded values in double precision)
            Ms = M.astype(np.complex64 if s["cplx"] else np.float32)
            Ms = ((Ms + Ms.conj().T) / 2).astype(Ms.dtype)
            A, M = ops.Dense(Ms), Ms.astype(np.complex128 if s["cplx"] else np.float64)
        else:
            A = ops.Dense(M)
        if s["declare"] != "none":
            A = getattr(cola, s["declare"])(A)
        return A, M, 1.0
    if k == "gen":
        n = s["n"]
        rng = np.random.default_rng(s["seed"])
        if s["cplx"]:
            lam = (0.5 + 3.5 * rng.random(n)) * np.exp(1j * rng.uniform(-1.2, 1.2, n))
            M, X = KR.nonnormal(lam, s["seed"], True, cond_x=5.0)
        else:
            D = np.zeros((n, n))
            i = 0
            while i < n:
                if i + 1 < n and rng.random() < 0.5:
                    a, b = 0.8 + 3 * rng.random(), 0.2 + 1.0 * rng.random()
                    D[i:i + 2, i:i + 2] = [[a, b], [-b, a]]
                    i += 2
                else:
                    D[i, i] = 0.5 + 3.5 * rng.random()
                    i += 1
            E = rng.standard_normal((n, n))
            E = E / max(np.linalg.norm(E, 2), 1e-12) * 0.6
            X = np.eye(n) + E
            M = X @ D @ np.linalg.inv(X)
        if s.get("single"):
            Ms = M.astype(np.complex64 if np.iscomplexobj(M) else np.float32)
            return ops.Dense(Ms), Ms.astype(np.complex128 if np.iscomplexobj(M) else np.float64), float(np.linalg.cond(X))
        return ops.Dense(M), M, float(np.linalg.cond(X))
    if k == "diag":
        rng = np.random.default_rng(s["seed"])
        d = 0.5 + 3.5 * rng.random(s["n"])
        return ops.Diagonal(d), np.diag(d), 1.0
    if k == "eye":
        return ops.Identity((s["n"], s["n"]), np.float64), np.eye(s["n"]), 1.0
    if k == "smul":
        c = 0.5 + (s["seed"] % 7) / 2.0
        return ops.ScalarMul(c, (s["n"], s["n"]), dtype=np.float64), c * np.eye(s["n"]), 1.0
    parts = [build(c) for c in s["ch"]]
    if k == "neg":
        A, M, c = parts[0]
        return s["c"] * A, s["c"] * M, c
    if k == "cmul":
        _, M, c = parts[0]
        cc = complex(*s["c"]) if s["c"][1] else float(s["c"][0])
        inner = M / cc
        return cc * ops.Dense(inner), cc * inner, c
    if k == "T":
        A, M, c = parts[0]
        return ops.Transpose(A), M.T, c
    if k == "H":
        A, M, c = parts[0]
        return ops.Adjoint(A), M.conj().T, c
    if k == "bd":
        As = [p[0] for p in parts]
        Ms = [p[1] for p, m in zip(parts, s["mult"]) for _ in range(m)]
        return ops.BlockDiag(*As, multiplicities=list(s["mult"])), sla.block_diag(*Ms), max(p[2] for p in parts)
    (A1, M1, c1), (A2, M2, c2) = parts
    if k == "kron":
        return ops.Kronecker(A1, A2), np.kron(M1, M2), c1 * c2
    if k == "kronsum":
        return ops.KronSum(A1, A2), np.kron(M1, np.eye(M2.shape[0])) + np.kron(np.eye(M1.shape[0]), M2), c1 * c2
    raise ValueError(k)


def has_single(s):
    return bool(s.get("single")) or any(has_single(c) for c in s.get("ch", []))


def kinds_of(s):
    out = {s["k"]}
    for c in s.get("ch", []):
        out |= kinds_of(c)
    return out


def reference(case, M):
    fn = case["fn"]
    Mc = M.astype(np.complex128) if np.iscomplexobj(M) else M.astype(np.float64)
    if fn == "exp":
        return sla.expm(Mc)
    if fn == "log":
        return sla.logm(Mc)
    if fn == "sqrt":
        return sla.sqrtm(Mc)
    if fn == "isqrt":
        return np.linalg.inv(sla.sqrtm(Mc))
    if fn == "pow":
        a = case["a"]
        if float(a).is_integer():
            return np.linalg.matrix_power(Mc, int(a))
        return sla.fractional_matrix_power(Mc, a)
    f = case["f"]
    n = M.shape[0]
    if f == "sin":
        return sla.sinm(Mc)
    if f == "sq1":
        return Mc @ Mc + np.eye(n)
    if f == "inv1":
        return np.linalg.inv(np.eye(n) + Mc)
    if f == "cexp":  # a function with complex coefficients: f(A) is complex for a real operator
        return sla.expm(1j * Mc.astype(np.complex128))
    raise ValueError(f)


UNARY_FN = {"sin": np.sin, "sq1": lambda x: x**2 + 1, "inv1": lambda x: 1 / (1 + x), "cexp": lambda x: np.exp(1j * x)}


def make_alg(case, n):
    import cola
    L = cola.linalg
    a = case["alg"]
    mi = {"n": n, "n+3": n + 3, "default": None}[case["max_iters"]]
    if a == "omitted":
        return None
    if a == "Auto":
        return L.Auto()
    if a == "Eig":
        return L.Eig()
    if a == "Eigh":
        return L.Eigh()
    if a == "Lanczos":
        return L.Lanczos(tol=1e-12) if mi is None else L.Lanczos(max_iters=mi, tol=1e-12)
    if a == "Arnoldi":
        return L.Arnoldi(tol=1e-12, max_iters=60) if mi is None else L.Arnoldi(max_iters=mi, tol=1e-12)
    raise ValueError(a)


def check(case, out):
    import cola
    L = cola.linalg
    fn, tree = case["fn"], case["tree"]
    A, M, condx = build(tree)
    n = M.shape[0]
    ks = kinds_of(tree)
    rootk = tree["k"]
    out.label("fn:" + fn + (":" + str(case.get("a", case.get("f", ""))) if fn in ("pow", "apply_unary") else ""), "alg:" + case["alg"],
              "root:" + rootk, "complex" if np.iscomplexobj(M) else "real", "ncol:%d" % case["ncol"], "max_iters:" + case["max_iters"])
    alg = make_alg(case, n)
    herm = np.allclose(M, M.conj().T)
    if case["alg"] in ("Eigh", "Lanczos") and not A.isa(cola.SelfAdjoint) and herm and rootk in ("pd", "spsd", "cmul"):
        A = cola.SelfAdjoint(A)
    rng = np.random.default_rng(case["vseed"])
    shape = (n, ) if case["ncol"] == 0 else (n, case["ncol"])
    v = rng.standard_normal(shape) + (1j * rng.standard_normal(shape) if np.iscomplexobj(M) else 0)
    if case.get("zero_col") and v.ndim == 2:
        v[:, -1] = 0  # f(A) maps a zero column to zero
        out.label("zero_column")
    site = f"{fn}:{type(A).__name__.split('[')[0]}:{case['alg']}" + (":singular" if "spsd" in ks else "")
    nonint = fn in ("sqrt", "isqrt", "log", "exp", "apply_unary") or (fn == "pow" and not float(case["a"]).is_integer())
    out.nontrivial = rootk not in ("pd", "gen") or case["alg"] in ("Lanczos", "Arnoldi") or not herm or np.iscomplexobj(M) or nonint
    extra = () if alg is None else (alg, )
    fa = case.get("first_alg", "none")
    if fa == "Eigh" and not A.isa(cola.SelfAdjoint):
        fa = "Eig"
    if fa != "none" and fa != case["alg"]:
        out.label("first_alg:" + fa)
        try:
            a1 = getattr(L, fa)()
            F1 = L.pow(A, case["a"], a1) if fn == "pow" else L.apply_unary(UNARY_FN[case["f"]], A, a1) if fn == "apply_unary" else getattr(L, fn)(A, a1)
            F1 @ v
        except Exception as e:
            if not oracle.is_contract_refusal(e):
                out.fail("call", site + ":first:" + fa, oracle.exc_man(e), e)
                return
    try:
        if fn == "pow":
            F = L.pow(A, case["a"], *extra)
        elif fn == "apply_unary":
            F = L.apply_unary(UNARY_FN[case["f"]], A, *extra)
        else:
            F = getattr(L, fn)(A, *extra)
        from cola.ops import LinearOperator
        if isinstance(F, LinearOperator) and TP.scalar_invalidated_annotations(F) & {"SelfAdjoint", "PSD"}:
            # open finding F-C05-scalar (recorded under C05): f(1) * I with a complex f(1) reports SelfAdjoint, so the
            # adjoint of the result is taken without conjugation
            out.inconclusive += 1
            out.label("contaminated:F-C05-scalar")
            return
        if case.get("pre", "none") != "none":
            w, V = np.linalg.eig(M)
            pre = (V[:, 0] if case["pre"] == "eigvec" else np.zeros(n)).astype(v.dtype if np.iscomplexobj(V) and np.iscomplexobj(v) else (np.complex128 if np.iscomplexobj(V[:, 0]) and case["pre"] == "eigvec" and np.abs(V[:, 0].imag).max() > 0 else v.dtype))
            out.label("pre:" + case["pre"])
            F @ (pre if v.ndim == 1 else np.stack([pre] * v.shape[1], axis=1))
        y = np.asarray(F @ v)
    except Exception as e:
        if oracle.is_contract_refusal(e):
            out.refusals += 1
            out.notes.append("refusal:" + oracle.exc_bucket(e)[1])
            return
        out.fail("call", site, oracle.exc_man(e), e)
        return
    try:
        Fref = reference(case, M)
    except Exception as e:
        out.notes.append("reference_failed:" + type(e).__name__)
        return
    yref = Fref @ v
    single = has_single(tree)
    if single:
        out.label("single_precision")
    tol = (2e-3 if single else 1e-7) * max(condx, 1.0) * max(np.linalg.norm(Fref, 2), 1e-300) * np.linalg.norm(v) * (100 if case["alg"] in ("Lanczos", "Arnoldi") and not single else 1)
    if y.shape != yref.shape:
        out.fail("value", site, "shape", f"{y.shape} vs {yref.shape}")
        return
    if not np.all(np.isfinite(y)):
        out.fail("value", site, "nonfinite", f"{y.reshape(-1)[:4]}")
        return
    err = np.linalg.norm(y - yref)
    if err > tol:
        out.fail("value", site, "value", f"|y - f(M)v| = {err:.3e} > {tol:.3e} (|f(M)v| = {np.linalg.norm(yref):.3e}, n={n}, kinds={sorted(ks)})")
        return
    if fn == "sqrt":  # sqrt(A) applied twice acts as A
        try:
            z = np.asarray(F @ (F @ v))
        except Exception as e:
            out.fail("sqrt_twice", site, oracle.exc_man(e), e)
            return
        e2 = np.linalg.norm(z - M @ v)
        if not np.isfinite(e2) or e2 > (1e-2 if single else 1e-6) * max(condx, 1.0) * np.linalg.norm(M, 2) * np.linalg.norm(v) * (100 if case["alg"] in ("Lanczos", "Arnoldi") else 1):
            out.fail("sqrt_twice", site, "value", f"|sqrt(A) sqrt(A) v - A v| = {e2:.3e}")
