"""C18 - operators are persistent values: inputs never mutated, flatten round-trips, history independence."""
import itertools
import json
import multiprocessing as mp
import os
import subprocess
import sys

import numpy as np
from hypothesis import strategies as st

from cvh import gen, ir as IR, oracle, treeprop as TP

ID = "C18"
LEVEL = "exploration"
BUDGET = {"quick": 12000, "thorough": 100000}
WALL = {"quick": 240, "thorough": 2700}
MIN_CASES = {"quick": 600, "thorough": 6000}
RULE = ("(history) Hypothesis draws a pool of operators (positive-definite / invertible / generic trees of every kind) and "
        "caller-owned arrays (right-hand sides, initial guesses, start vectors, two index arrays with negative entries) and a list of 2-10 steps from an "
        "alphabet of ~35 public operations (products on both sides, .T/.H, + - * /, kron/kronsum/block_diag, annotate, densify, "
        "__getitem__, .to(None), inv/solve with every algorithm, logdet, diag, trace, exp/sqrt/pow, eig, svd, cholesky/plu, "
        "cg/gmres with x0, lanczos/arnoldi with start vectors, hutchinson with key, flatten/unflatten, repeat-an-earlier-call); "
        "the whole list shrinks as one value. Model: bytes of every caller array and of every array reachable from a pool "
        "operator at creation, each operator's dense matrix and annotation set, first result of every recorded call. "
        "Invariants after EVERY step: all arrays bit-identical, every pool operator's dense form and annotations unchanged, a "
        "repeated call bit-identical. (flatten) trees of every kind: unflatten(flatten(A)) has the same class, shape, dtype, "
        "annotations and dense matrix; every leaf is an ndarray that IS one of the array attributes reachable from A, their "
        "number equals the per-kind prediction from the IR, and substituting leaf i by leaf+1 changes exactly that attribute. "
        "(exhaustive) every sequence of <= 2 (quick) / <= 3 (thorough) steps from the alphabet over a fixed pool. (orders) "
        "fresh interpreters that first instantiate kinds in a generated order with variant payload types, then run the flatten "
        "suite: the verdict must not depend on the order. Non-trivial: a history with >= 2 distinct step kinds touching the "
        "same object; a flatten case with >= 2 leaves; an order different from the default."
        " Further: steps inv_left (X @ inv(A) on caller-owned C-ordered arrays), inv_T, rmatmat, to_dtype; the dense"
        " form of every pool operator keeps its dtype."
        " Round 5: c * leaf has leaves(leaf) + 1 leaves; the default algorithm objects of the public functions are"
        " unchanged after every step; eigmax with the algorithm omitted; cg with a zero column and a non-zero guess;"
        " composites of array-free parts in the pool.")
ASSUMPTIONS = [
    "exceptions raised by a step are not judged here (other properties do); only mutation, repeatability and the flatten contract are",
    ".to(device) is exercised with the only NumPy device (None); .to(dtype=...) is documented as unsupported and outside the alphabet",
    "leaves are compared by identity with attributes of the operator itself (constructors such as ScalarMul / Sparse store converted copies of the caller's payload)",
]
AVOID = set()


def configure(tier, opts):
    AVOID.clear()
    AVOID.update(TP.load_avoid(ID, opts, base=("dup_index", )))


# ----------------------------------------------------------------------------- reachable arrays / snapshots
def reachable_arrays(op, _seen=None):
    """(path, ndarray) for every ndarray reachable from op through attributes, tuples, lists and child operators."""
    from cola.ops import LinearOperator
    out = []
    seen = set() if _seen is None else _seen

    def visit(v, path):
        if isinstance(v, np.ndarray):
            out.append((path, v))
        elif isinstance(v, LinearOperator):
            if id(v) in seen:
                return
            seen.add(id(v))
            for k, w in sorted(vars(v).items()):
                visit(w, path + "." + k)
        elif isinstance(v, (tuple, list)):
            for i, w in enumerate(v):
                visit(w, f"{path}[{i}]")

    visit(op, type(op).__name__.split("[")[0])
    return out


def snap(a):
    return (a.dtype.str, a.shape, a.tobytes())


def ann_set(op):
    return frozenset(a.__name__ for a in op.annotations)


# ----------------------------------------------------------------------------- step alphabet
ALGS = ["omitted", "Auto", "LU", "Cholesky", "CG", "GMRES"]
STEPS = ["matvec", "rmatvec", "matmat", "T", "H", "add", "sub", "mulc", "divc", "neg", "matmul", "kron", "kronsum", "bd", "annotate",
         "densify", "getitem_row", "getitem_slice", "getitem_idx", "to_none", "inv", "solve", "logdet", "diag", "trace", "exp", "sqrt",
         "pow", "eig", "svd", "cholesky", "plu", "cg", "gmres", "lanczos", "arnoldi", "hutch", "flatten", "inv_left", "inv_T", "rmatmat", "to_dtype", "eigmax", "eigmax",
         "krylov_fn", "repeat"]


@st.composite
def step(draw, n_ops, n_steps_so_far):
    name = draw(st.sampled_from(STEPS if n_steps_so_far > 0 else STEPS[:-1]))
    s = {"s": name, "i": draw(st.integers(0, n_ops - 1)), "j": draw(st.integers(0, n_ops - 1))}
    if name in ("mulc", "divc"):
        s["c"] = draw(st.sampled_from([2.0, -1.5, 0.5, 3]))
    if name == "annotate":
        s["a"] = draw(st.sampled_from(["PSD", "SelfAdjoint", "Unitary", "Stiefel"]))
    if name in ("inv", "solve", "inv_left", "inv_T"):
        s["alg"] = draw(st.sampled_from(ALGS))
    if name == "diag":
        s["k"] = draw(st.sampled_from([0, 0, 1, -1]))
    if name == "pow":
        s["p"] = draw(st.sampled_from([2, -1, 0.5, 3]))
    if name in ("eig", "svd"):
        s["k"] = draw(st.integers(1, 2))
    if name == "hutch":
        s["key"] = draw(st.integers(1, 1000))
    if name == "krylov_fn":
        # round 6: a matrix function through an explicit Krylov algorithm applied to caller-owned operands, among them
        # one with an exactly zero column and a zero vector
        s["f"] = draw(st.sampled_from(["exp", "sqrt", "log"]))
        s["arg"] = draw(st.sampled_from(["b", "Bz", "z0", "Bz", "B"]))
    if name == "repeat":
        s["r"] = draw(st.integers(0, n_steps_so_far - 1))
    return s


@st.composite
def history_cases(draw, tier):
    g = gen.TraitGen(draw, avoid=AVOID | {"fft", "hh"}, dtypes=("f8", "c16", "f4"))
    n = g.integer(2, 5)
    trees = [g.t_pd(n, g.pick([0, 1, 2])), g.pick([g.t_inv, g.t_pd, g.t_herm])(n, g.pick([0, 1, 2]))]
    if g.boolean():
        trees.append(g.op(n, n, g.pick([0, 1, 2])))
    if g.integer(1, 4) == 1 and n >= 2:
        # a composite all of whose parts are array-free (its flattened form holds them as static data)
        dt = g.pick(["f8", "f8", "c16"])
        a = [d for d in range(1, n + 1) if n % d == 0][g.integer(0, len([d for d in range(1, n + 1) if n % d == 0]) - 1)]
        eye = lambda m: {"k": "eye", "n": m, "dt": dt}  # noqa: E731
        trees.append(g.pick([lambda: {"k": "kron", "via": "ctor", "ch": [eye(a), eye(n // a)]},
                             lambda: {"k": "bd", "ch": [eye(1)], "mult": [n]},
                             lambda: {"k": "sum", "via": "op", "ch": [{"k": "kron", "via": "fn", "ch": [eye(a), eye(n // a)]}, g.t_pd(n, 0)]}])())
    nsteps = g.integer(2, 10 if tier == "thorough" else 7)
    steps = []
    for t in range(nsteps):
        steps.append(draw(step(len(trees), t)))
    return {"mode": "history", "trees": trees, "n": n, "steps": steps, "seed": g.integer(0, 10**5)}


@st.composite
def flatten_cases(draw, tier):
    g = gen.TreeGen(draw, avoid=(AVOID - {"dup_index"}) | {"share"})  # (one object as two children: its array is two leaves; exercised by C01/C03/C08)
    r, c = TP.target_shape(g, maxn=6)
    tree = g.op(r, c, g.pick([0, 0, 1, 1, 2, 3]))
    if g.integer(1, 5) == 1:
        # a scalar multiple of a plain leaf, the scalar being a NumPy scalar / 0-d array / Python number of the leaf's own dtype
        dt = g.pick(["f8", "f4", "c16"])
        leaf = g.pick([lambda: {"k": "dense", "a": gen.enc(g.array((r, c), dt))}, lambda: {"k": "diag", "d": gen.enc(g.array((r, ), dt))}])()
        sc = {"t": g.pick([dt, "a0" + dt, "float", "int"]), "v": [2, 1] if dt == "c16" and g.boolean() else 2.5}
        if isinstance(sc["v"], list) and sc["t"] in ("float", "int"):
            sc["v"] = 2
        tree = {"k": g.pick(["scale", "scale", "div"]), "c": sc, "side": g.pick("lr"), "ch": [leaf]}
    return {"mode": "flatten", "tree": tree, "leaf": g.integer(0, 50)}


@st.composite
def product_cases(draw, tier):
    """generic trees of every kind (Identity-biased, since Identity hands its operand back) with operands of exactly the
    promoted dtype, so that no cast protects the caller's arrays"""
    g = gen.TreeGen(draw, avoid=AVOID)
    g.bias_sq = ["eye", "eye", "perm", "smul"]
    r, c = TP.target_shape(g, maxn=6)
    tree = g.op(r, c, g.pick([1, 1, 2, 2, 3]))
    dt = IR.DTN[IR.denote(tree).dtype]
    return {"mode": "products", "tree": tree, "x": g.operand(c, dtypes=(dt, ), ranks=(1, )), "X": g.operand(c, dtypes=(dt, ), ranks=(2, )),
            "xl": g.left_operand(r, dtypes=(dt, ), ranks=(1, 2))}


def strategy(tier):
    return st.one_of(history_cases(tier), history_cases(tier), flatten_cases(tier), product_cases(tier), product_cases(tier))


class Ctx:
    """Executes steps on a pool; records results of calls for repetition."""
    def __init__(self, trees, n, seed):
        import cola
        self.cola = cola
        self.ops = [IR.build(t) for t in trees]
        rng = np.random.default_rng(seed)
        self.n = n
        cplx = any(np.dtype(o.dtype).kind == "c" for o in self.ops)
        self.b = rng.integers(-3, 4, size=n).astype(np.float64)
        self.B = rng.integers(-3, 4, size=(n, 2)).astype(np.complex128 if cplx else np.float64)
        self.x0 = rng.integers(-2, 3, size=n).astype(np.float64)
        self.v = rng.integers(1, 4, size=n).astype(np.float64)
        # index arrays: distinct positions in drawn order, some written as negative (from-the-end) indices
        def index_array():
            pos = rng.permutation(n)[:max(1, int(rng.integers(1, n + 1)))]
            return np.array([int(p) - n if rng.random() < 0.5 else int(p) for p in pos], dtype=np.int64)

        self.idx, self.idx2 = index_array(), index_array()
        self.Bz = self.B.copy()
        self.Bz[:, -1] = 0  # a right-hand side with a zero column ...
        self.X0 = rng.integers(1, 4, size=(n, 2)).astype(self.B.dtype)  # ... and a non-zero guess for every column
        self.BL = np.ascontiguousarray(rng.integers(-3, 4, size=(2, n)).astype(np.complex128 if cplx else np.float64))  # left operand, C order
        self.z0 = np.zeros(n)
        self.arrays = {"b": self.b, "B": self.B, "x0": self.x0, "v": self.v, "idx": self.idx, "idx2": self.idx2, "BL": self.BL, "Bz": self.Bz, "X0": self.X0,
                       "z0": self.z0}
        self.n_base = len(self.ops)

    def alg(self, name):
        L = self.cola.linalg
        return {"omitted": None, "Auto": L.Auto(), "LU": L.LU(), "Cholesky": L.Cholesky(), "CG": L.CG(tol=1e-8, max_iters=60),
                "GMRES": L.GMRES(tol=1e-8, max_iters=self.n)}[name]

    def run(self, s):
        cola = self.cola
        L = cola.linalg
        A = self.ops[s["i"] % len(self.ops)]
        Bop = self.ops[s["j"] % len(self.ops)]
        name = s["s"]
        b, Bm = self.b, self.B
        if name == "matvec":
            return A @ b
        if name == "rmatvec":
            return b @ A
        if name == "matmat":
            return A @ Bm
        if name == "T":
            return self.keep(A.T)
        if name == "H":
            return self.keep(A.H)
        if name == "add":
            return self.keep(A + Bop)
        if name == "sub":
            return self.keep(A - Bop)
        if name == "mulc":
            return self.keep(s["c"] * A)
        if name == "divc":
            return self.keep(A / s["c"])
        if name == "neg":
            return self.keep(-A)
        if name == "matmul":
            return self.keep(A @ Bop)
        if name == "kron":
            return cola.kron(A, Bop)
        if name == "kronsum":
            return cola.kronsum(A, Bop)
        if name == "bd":
            return cola.block_diag(A, Bop)
        if name == "annotate":
            return self.keep(getattr(cola, s["a"])(A))
        if name == "densify":
            return cola.densify(A)
        if name == "getitem_row":
            return A[1 % self.n]
        if name == "getitem_slice":
            return A[0:2, ::2].to_dense()
        if name == "getitem_idx":
            return A[self.idx, self.idx2].to_dense() if s.get("i", 0) % 2 else A[self.idx, self.idx].to_dense()
        if name == "to_none":
            return A.to(None)
        if name == "to_dtype":  # a dtype move yields a new operator; the original (and whatever it shares) stays as it was
            target = np.float32 if np.dtype(A.dtype) in (np.dtype(np.float64), np.dtype(np.float32)) else np.complex64
            return A.to(None, dtype=target).to_dense()
        if name == "inv":
            alg = self.alg(s["alg"])
            return L.inv(A, *([alg] if alg else [])) @ b
        if name == "inv_left":  # the inverse on the right of caller-owned arrays
            alg = self.alg(s["alg"] if s.get("alg") not in ("CG", "GMRES") else "omitted")
            Ai = L.inv(A, *([alg] if alg else []))
            return [self.BL @ Ai, b @ Ai]
        if name == "inv_T":
            alg = self.alg(s["alg"] if s.get("alg") not in ("CG", "GMRES") else "omitted")
            return L.inv(A, *([alg] if alg else [])).T @ b
        if name == "rmatmat":
            return self.BL @ A
        if name == "solve":
            alg = self.alg(s["alg"])
            return L.solve(A, Bm, *([alg] if alg else []))
        if name == "logdet":
            return L.logdet(A)
        if name == "diag":
            return L.diag(A, s["k"])
        if name == "trace":
            return L.trace(A)
        if name == "exp":
            return L.exp(A) @ b
        if name == "sqrt":
            return L.sqrt(A) @ b
        if name == "pow":
            return L.pow(A, s["p"]) @ b
        if name == "krylov_fn":
            alg = L.Lanczos(max_iters=self.n, tol=1e-10) if A.isa(cola.SelfAdjoint) else L.Arnoldi(max_iters=self.n, tol=1e-10)
            return getattr(L, s.get("f", "exp"))(A, alg) @ self.arrays[s.get("arg", "Bz")]
        if name == "eig":
            return L.eig(A, min(s["k"], self.n))
        if name == "eigmax":  # default algorithm object (one shared instance per process)
            return L.eigmax(A)
        if name == "svd":
            from cola.linalg.svd.svd import svd
            return svd(A, min(s["k"], self.n))
        if name == "cholesky":
            from cola.linalg.decompositions.decompositions import cholesky
            return cholesky(A)
        if name == "plu":
            from cola.linalg.decompositions.decompositions import plu
            return plu(A)
        if name == "cg":
            from cola.linalg.inverse.cg import cg
            if s.get("i", 0) % 2:
                return cg(A, self.Bz, x0=self.X0, tol=1e-8, max_iters=40)[0]
            return cg(A, b, x0=self.x0, tol=1e-8, max_iters=40)[0]
        if name == "gmres":
            from cola.linalg.inverse.gmres import gmres
            return gmres(A, Bm, x0=np.stack([self.x0, self.x0], 1).astype(Bm.dtype), max_iters=self.n, tol=1e-8)[0]
        if name == "lanczos":
            from cola.linalg.decompositions.lanczos import lanczos
            Q, T, _ = lanczos(A, self.v, max_iters=self.n, tol=1e-8)
            return (Q, T)
        if name == "arnoldi":
            from cola.linalg.decompositions.arnoldi import arnoldi
            Q, H, _ = arnoldi(A, self.v, max_iters=self.n, tol=1e-8)
            return (Q, H)
        if name == "hutch":
            from cola.linalg.trace.diagonal_estimation import hutchinson_diag_estimate
            return hutchinson_diag_estimate(A, k=0, tol=0.5, max_iters=2, key=s["key"])[0]
        if name == "flatten":
            vals, un = A.flatten()
            return un(vals)
        raise ValueError(name)

    def keep(self, op):
        """derived operators join the pool (bounded), so later steps can act on them"""
        from cola.ops import LinearOperator
        if isinstance(op, LinearOperator) and len(self.ops) < 8 and tuple(op.shape) == (self.n, self.n):
            self.ops.append(op)
        return op


def result_arrays(x):
    from cola.ops import LinearOperator
    if isinstance(x, LinearOperator):
        try:
            return [np.array(x.to_dense())]
        except Exception:
            return [np.array(v) for v in x.flatten()[0] if isinstance(v, np.ndarray)]
    if isinstance(x, (tuple, list)):
        out = []
        for y in x:
            out.extend(result_arrays(y))
        return out
    try:
        return [np.array(x)]
    except Exception:
        return []


def default_algorithm_objects():
    """the algorithm objects that serve as default arguments of the public functions (one shared instance per function and
    process): they are part of what a later call with the algorithm omitted computes"""
    import inspect
    import cola
    from cola.linalg.svd.svd import svd
    L = cola.linalg
    found = []
    for name in ("inv", "solve", "pinv", "eig", "eigmax", "eigmin", "logdet", "slogdet", "diag", "trace", "exp", "log", "sqrt", "isqrt", "pow",
                 "apply_unary"):
        fns = [getattr(L, name)]
        for fn in fns:
            try:
                for k, prm in inspect.signature(fn).parameters.items():
                    if prm.default is not inspect._empty and hasattr(prm.default, "__dict__"):
                        found.append((f"{name}.{k}", prm.default))
            except (TypeError, ValueError):
                pass
    try:
        for k, prm in inspect.signature(svd).parameters.items():
            if prm.default is not inspect._empty and hasattr(prm.default, "__dict__"):
                found.append((f"svd.{k}", prm.default))
    except (TypeError, ValueError):
        pass
    return found


def check_history(case, out):
    ctx = Ctx(case["trees"], case["n"], case["seed"])
    defaults = [(nm, obj, repr(sorted(vars(obj).items(), key=lambda kv: kv[0]))) for nm, obj in default_algorithm_objects()]
    steps = case["steps"]
    kinds = {s["s"] for s in steps}
    out.label(*["step:" + s["s"] for s in steps])
    touched = [s["i"] % ctx.n_base for s in steps]
    out.nontrivial = len(kinds) >= 2 and len(set(touched)) < len(touched)
    # model at creation
    model_ops = []

    def register(op):
        try:
            dense = np.array(op.to_dense())
        except Exception:
            dense = None
        model_ops.append({"op": op, "dense": dense, "ann": ann_set(op), "arrays": [(p, a, snap(a)) for p, a in reachable_arrays(op)]})

    for op in ctx.ops:
        register(op)
    model_arr = {k: snap(a) for k, a in ctx.arrays.items()}
    recorded = []  # (step, arrays or None)

    def invariants(i, s):
        site = s["s"] + (":" + s.get("alg", "") if "alg" in s else "")
        for nm, obj, before in defaults:
            if repr(sorted(vars(obj).items(), key=lambda kv: kv[0])) != before:
                out.fail("default_algorithm_mutated", site, nm, f"step {i} ({s['s']}): the default algorithm object of {nm} is now {vars(obj)} (was {before})")
                return False
        for k, a in ctx.arrays.items():
            if snap(a) != model_arr[k]:
                out.fail("caller_array_mutated", site, k, f"step {i} ({s['s']}) changed the caller's array '{k}'")
                return False
        for m in model_ops:
            for p, a, sn in m["arrays"]:
                if snap(a) != sn:
                    out.fail("operator_payload_mutated", site, p.split(".")[0], f"step {i} ({s['s']}) changed array {p}")
                    return False
            if ann_set(m["op"]) != m["ann"]:
                out.fail("annotations_changed", site, type(m["op"]).__name__.split("[")[0], f"step {i}: {set(m['ann'])} -> {set(ann_set(m['op']))}")
                return False
            if m["dense"] is not None:
                try:
                    d = np.array(m["op"].to_dense())
                except Exception as e:
                    out.fail("operator_changed", site, "to_dense_raises", f"step {i}: {type(e).__name__}: {e}")
                    return False
                if d.shape != m["dense"].shape or not np.array_equal(d, m["dense"], equal_nan=True):
                    out.fail("operator_changed", site, type(m["op"]).__name__.split("[")[0], f"step {i} ({s['s']}): dense form differs from its creation value")
                    return False
                if d.dtype != m["dense"].dtype:
                    out.fail("operator_changed", site, "dtype:" + type(m["op"]).__name__.split("[")[0],
                             f"step {i} ({s['s']}): dense form is now {d.dtype}, it was {m['dense'].dtype} when the operator was created")
                    return False
        return True

    for i, s in enumerate(steps):
        n_before = len(ctx.ops)
        if s["s"] == "repeat":
            r = s["r"] % max(len(recorded), 1)
            s0, first = recorded[r]
            if s0["s"] == "repeat" or first is None:
                recorded.append((s, None))
                continue
            try:
                again = result_arrays(ctx.run(dict(s0)))
            except Exception as e:
                out.fail("repeat", s0["s"], "raises_on_repeat", f"{type(e).__name__}: {e}")
                return
            same = len(again) == len(first) and all(x.shape == y.shape and np.array_equal(x, y, equal_nan=True) for x, y in zip(again, first))
            if not same:
                out.fail("repeat", s0["s"] + (":" + s0.get("alg", "") if "alg" in s0 else ""), "differs", f"step {i}: repeating step {r} ({s0['s']}) gave a different result")
                return
            recorded.append((s, None))
        else:
            try:
                res = ctx.run(s)
                recorded.append((s, result_arrays(res)))
            except Exception as e:
                out.notes.append(f"{s['s']}:{type(e).__name__}")
                recorded.append((s, None))
        for op in ctx.ops[n_before:]:
            register(op)
        if not invariants(i, s):
            return


# ----------------------------------------------------------------------------- flatten contract
def expected_leaves(ir):
    k = ir["k"]
    base = {"dense": 1, "lazify": 1, "tri": 1, "sparse": 3, "smul": 1, "eye": 0, "diag": 1, "tridiag": 3, "perm": 1, "hh": 2, "kernel": 2,
            "fft": 0, "jac": 1, "hess": 1, "matmat": 0, "arr": 1}
    if k in base:
        return base[k]
    ch = sum(expected_leaves(c) for c in ir.get("ch", []))
    if k == "nodisp":
        return 0
    if k == "slice":
        return ch + sum(1 for key in ("s0", "s1") if "ix" in ir[key])
    return ch  # composites: scalar factors created by scale/neg/div add ScalarMul leaves, handled below


def scalar_nodes(ir):
    return sum(1 for n in IR.nodes(ir) if n["k"] in ("scale", "neg", "div"))


def check_flatten(case, out):
    from cola.ops import LinearOperator
    tree = case["tree"]
    R = IR.denote(tree)
    out.label(*TP.tree_labels(tree, R))
    A = IR.build(tree)
    site = oracle.site_of(tree)
    try:
        dense0 = np.array(A.to_dense())
    except Exception as e:
        out.notes.append("to_dense:" + oracle.exc_man(e))
        return
    try:
        vals, un = A.flatten()
        B = un(vals)
    except Exception as e:
        out.fail("flatten", site, oracle.exc_man(e), e)
        return
    out.nontrivial = len(vals) >= 2
    out.label("leaves:%d" % min(len(vals), 9))
    if type(B) is not type(A) or tuple(B.shape) != tuple(A.shape) or B.dtype != A.dtype:
        out.fail("roundtrip", site, "kind_shape_dtype", f"{B!r} vs {A!r}")
        return
    if ann_set(B) != ann_set(A):
        out.fail("roundtrip", site, "annotations", f"{set(ann_set(B))} vs {set(ann_set(A))}")
    try:
        dB = np.array(B.to_dense())
        if not np.array_equal(dB, dense0, equal_nan=True):
            out.fail("roundtrip", site, "value", "unflatten(flatten(A)) has a different dense matrix")
    except Exception as e:
        out.fail("roundtrip", site, oracle.exc_man(e), e)
        return
    # leaves are exactly the array attributes
    attrs = reachable_arrays(A)
    not_arrays = [type(v).__name__ for v in vals if not isinstance(v, np.ndarray)]
    if not_arrays:
        out.fail("leaves", site, "non_array_leaf", f"leaf types {sorted(set(not_arrays))}")
        return
    attr_ids = [id(a) for _, a in attrs]
    leaf_ids = [id(v) for v in vals]
    if sorted(attr_ids) != sorted(leaf_ids):
        missing = [p for p, a in attrs if id(a) not in leaf_ids]
        extra = sum(1 for v in vals if id(v) not in attr_ids)
        out.fail("leaves", site, "not_the_parameters", f"{len(vals)} leaves vs {len(attrs)} array attributes; attributes that are no leaf: {missing[:4]}; leaves that are no attribute: {extra}")
        return
    has_rewrite = any(n["k"] in ("scale", "neg", "div", "rdiv", "relazify", "gram", "T", "H", "sub", "sum", "prod") for n in IR.nodes(tree))
    exp = expected_leaves(tree) + scalar_nodes(tree)
    if not has_rewrite and len(vals) != exp:
        out.fail("leaves", site, "count", f"{len(vals)} leaves, the IR predicts {exp}")
    # a scalar multiple (or a ScalarMul operator) of a plain leaf: its constant is a parameter of the operator like any
    # other, whatever kind of scalar it was built from (Python number, NumPy scalar, 0-d array)
    plain = ("dense", "diag", "tri", "tridiag", "lazify", "kernel", "hh")
    if tree["k"] in ("scale", "neg", "div") and tree["ch"][0]["k"] in plain and len(vals) != expected_leaves(tree["ch"][0]) + 1:
        out.fail("leaves", site, "count", f"{len(vals)} leaves for a scalar multiple of a {tree['ch'][0]['k']} operator "
                 f"({expected_leaves(tree['ch'][0])} array parameters + the scalar)")
    if tree["k"] == "smul" and len(vals) != 1:
        out.fail("leaves", site, "count", f"{len(vals)} leaves for a ScalarMul operator (its constant is its only parameter)")
    # substituting one leaf changes exactly that parameter
    if vals:
        i = case["leaf"] % len(vals)
        if vals[i].dtype.kind in "fc":
            new_vals = list(vals)
            new_vals[i] = np.asarray(vals[i] + 1)  # (0-d leaves: keep an ndarray)
            try:
                B2 = un(new_vals)
            except Exception as e:
                out.fail("substitute", site, oracle.exc_man(e), e)
                return
            attrs2 = reachable_arrays(B2)
            ids2 = [id(a) for _, a in attrs2]
            if id(new_vals[i]) not in ids2:
                out.fail("substitute", site, "leaf_not_installed", f"leaf {i} of {len(vals)}")
            others = [id(v) for j, v in enumerate(new_vals) if j != i]
            if sorted(x for x in ids2 if x != id(new_vals[i])) != sorted(others):
                out.fail("substitute", site, "other_parameters_changed", "")
            if not np.array_equal(np.array(A.to_dense()), dense0, equal_nan=True):
                out.fail("substitute", site, "original_changed", "A changed after substituting a leaf in its unflattened copy")


def check_products(case, out):
    tree = case["tree"]
    R = IR.denote(tree)
    out.label(*TP.tree_labels(tree, R))
    try:
        A = IR.build(tree)
    except Exception as e:
        out.notes.append("build:" + oracle.exc_man(e))
        return
    ops = {"x": IR.dec(case["x"]), "X": IR.dec(case["X"]), "xl": IR.dec(case["xl"])}
    snaps = {k: snap(v) for k, v in ops.items()}
    payload = [(p, a, snap(a)) for p, a in reachable_arrays(A)]
    out.nontrivial = IR.size(tree) >= 2
    site = oracle.site_of(tree)
    calls = [("matvec", lambda: A @ ops["x"], "x"), ("matmat", lambda: A @ ops["X"], "X"), ("left", lambda: ops["xl"] @ A, "xl"),
             ("to_dense", lambda: A.to_dense(), None)]
    for name, fn, key in calls:
        try:
            r1 = np.array(fn())  # copy: the result may alias the operand
        except Exception as e:
            out.notes.append(f"{name}:{type(e).__name__}")
            continue
        for k, v in ops.items():
            if snap(v) != snaps[k]:
                out.fail("caller_array_mutated", site, name, f"{name} changed the caller's operand '{k}'")
                return
        for p_, a, sn in payload:
            if snap(a) != sn:
                out.fail("operator_payload_mutated", site, name, f"{name} changed {p_}")
                return
        try:
            r2 = np.array(fn())
        except Exception as e:
            out.fail("repeat", site, name + ":raises_on_repeat", f"{type(e).__name__}: {e}")
            return
        if r1.shape != r2.shape or not np.array_equal(r1, r2, equal_nan=True):
            out.fail("repeat", site, name + ":differs", f"repeating {name} gave a different result")
            return


def check(case, out):
    out.label("mode:" + case["mode"])
    if case["mode"] == "products":
        return check_products(case, out)
    if case["mode"] == "history":
        check_history(case, out)
    elif case["mode"] == "flatten":
        check_flatten(case, out)
    elif case["mode"] == "order":
        res = run_order(case["order"], case["variant"])
        base = run_order(case["base_order"], case["base_variant"])
        if res != base:
            out.fail("order", "fresh_interpreter", "verdict_differs", f"order {case['order']} variant {case['variant']}: {diff_verdict(base, res)}")


# ----------------------------------------------------------------------------- exhaustive short histories
FIXED_TREES = [
    {"k": "ann", "a": "PSD", "ch": [{"k": "dense", "a": IR.enc(np.array([[4., 1., 0.], [1., 3., 1.], [0., 1., 2.]]))}]},
    {"k": "kron", "via": "ctor", "ch": [{"k": "diag", "d": IR.enc(np.array([2., 3.]))}, {"k": "dense", "a": IR.enc(np.array([[2., 1.], [1., 2.]]))}]},
]
SHORT_ALPHABET = [{"s": n, "i": 0, "j": 0} for n in STEPS if n not in ("repeat", "mulc", "divc", "annotate", "inv", "solve", "diag", "pow", "eig", "svd", "hutch")] + [
    {"s": "mulc", "i": 0, "j": 0, "c": -1.5}, {"s": "divc", "i": 0, "j": 0, "c": 2.0}, {"s": "annotate", "i": 0, "j": 0, "a": "SelfAdjoint"},
    {"s": "inv", "i": 0, "j": 0, "alg": "omitted"}, {"s": "inv", "i": 0, "j": 0, "alg": "CG"}, {"s": "solve", "i": 0, "j": 0, "alg": "GMRES"},
    {"s": "diag", "i": 0, "j": 0, "k": 1}, {"s": "pow", "i": 0, "j": 0, "p": 0.5}, {"s": "eig", "i": 0, "j": 0, "k": 2}, {"s": "svd", "i": 0, "j": 0, "k": 2},
    {"s": "hutch", "i": 0, "j": 0, "key": 7}]


def _short_worker(chunk):
    from cvh import runner
    runner.setup_cola()
    res = []
    for seq in chunk:
        steps = [dict(SHORT_ALPHABET[a]) for a in seq]
        # every sequence ends with a repetition of each of its steps
        steps = steps + [{"s": "repeat", "i": 0, "j": 0, "r": r} for r in range(len(seq))]
        for t, tree in enumerate(FIXED_TREES):
            case = {"mode": "history", "trees": [tree], "n": IR.denote(tree).shape[0], "steps": steps, "seed": 1}
            out = runner.Outcome()
            try:
                check_history(case, out)
            except Exception as e:  # harness problem: surface it
                out.fail("harness", "short_history", type(e).__name__, str(e))
            if out.failures:
                res.append((case, out.failures))
    return res


def deterministic(tier, seed, open_findings):
    from cvh import runner
    depth = 2 if tier == "quick" else 3
    seqs = []
    for d in range(1, depth + 1):
        seqs.extend(itertools.product(range(len(SHORT_ALPHABET)), repeat=d))
    nproc = int(os.environ.get("VERIF_SHARDS", "16"))
    chunks = [seqs[i::nproc * 4] for i in range(nproc * 4)]
    with mp.get_context("fork").Pool(nproc) as pool:
        fails = [r for part in pool.map(_short_worker, chunks, chunksize=1) for r in part]
    violations, seen = [], set()
    excluded = {}
    for case, failures in fails:
        unknown = []
        for f in failures:
            kid = runner.known_id(open_findings, f)
            if kid:
                excluded[kid] = excluded.get(kid, 0) + 1
            else:
                unknown.append(f)
        if unknown:
            key = runner.sig(unknown[0])
            if key not in seen:
                seen.add(key)
                violations.append({"case": case, "failures": unknown})
    # fresh-interpreter instantiation orders
    n_orders = 16 if tier == "quick" else 200
    rng = np.random.default_rng(seed)
    base = run_order(list(range(len(ORDER_KINDS))), 0)
    order_fail = 0
    samples = []
    jobs = []
    for t in range(n_orders):
        order = [int(x) for x in rng.permutation(len(ORDER_KINDS))]
        jobs.append((order, int(rng.integers(0, 4))))
    with mp.get_context("fork").Pool(min(nproc, len(jobs))) as pool:
        results = pool.starmap(run_order, jobs)
    for (order, variant), res in zip(jobs, results):
        if len(samples) < 2:
            samples.append({"order": [ORDER_KINDS[i] for i in order], "variant": variant})
        if res != base:
            order_fail += 1
            f = {"sub": "order", "site": "fresh_interpreter", "man": "verdict_differs", "detail": diff_verdict(base, res)}
            kid = runner.known_id(open_findings, f)
            if kid:
                excluded[kid] = excluded.get(kid, 0) + 1
            elif "order" not in seen:
                seen.add("order")
                violations.append({"case": {"mode": "order", "order": order, "variant": variant, "base_order": list(range(len(ORDER_KINDS))), "base_variant": 0}, "failures": [f]})
    if "error" in base:
        raise runner.HarnessError("order base run failed: " + str(base)[:500])
    return {"evaluations": len(seqs) * len(FIXED_TREES) + n_orders, "distinct_nontrivial": len(seqs) * len(FIXED_TREES) + n_orders,
            "samples": [{"short_history": [SHORT_ALPHABET[a]["s"] for a in seqs[len(seqs) // 2]]}] + samples, "violations": violations[:20],
            "short_histories": len(seqs), "short_history_depth": depth, "alphabet": len(SHORT_ALPHABET), "exhaustive": True,
            "orders_run": n_orders, "orders_with_different_verdict": order_fail, "deterministic_excluded_known": excluded}


# ----------------------------------------------------------------------------- fresh-interpreter orders
ORDER_KINDS = ["Dense", "Sliced_slices", "Sliced_arrays", "BlockDiag_list", "BlockDiag_array", "Product_identity", "Product_dense", "ScalarMul",
               "Sum", "Kronecker", "Diagonal", "Householder", "Permutation", "Sparse", "Tridiagonal", "Transpose", "KronSum", "Jacobian"]

ORDER_SCRIPT = r'''
import sys, json
sys.path.insert(0, sys.argv[1]); sys.path.insert(0, sys.argv[2])
import numpy as np
from cvh import runner
runner.setup_cola()
import cola
from cola import ops
from cvh import ir as IR
from cvh.props import c18
order, variant = json.loads(sys.argv[3]), int(sys.argv[4])
kinds = c18.ORDER_KINDS
def make(name, v):
    A = np.arange(9.).reshape(3, 3) + 1
    D = ops.Dense(A.copy())
    if name == "Dense": return D
    if name == "Sliced_slices": return D[0:2, 0:2]
    if name == "Sliced_arrays": return D[np.array([0, 2]), np.array([1, 2])]
    if name == "BlockDiag_list": return ops.BlockDiag(D, multiplicities=[2])
    if name == "BlockDiag_array": return ops.BlockDiag(D, multiplicities=np.array([2]))
    if name == "Product_identity": return ops.Product(ops.Identity((3, 3), np.float64), ops.Identity((3, 3), np.float64))
    if name == "Product_dense": return ops.Product(D, ops.Dense(A.T.copy()))
    if name == "ScalarMul": return ops.ScalarMul(2.0 if v % 2 else np.float64(2.0), (3, 3), dtype=np.float64)
    if name == "Sum": return ops.Sum(D, ops.Diagonal(np.ones(3)))
    if name == "Kronecker": return ops.Kronecker(D, ops.Diagonal(np.ones(2)))
    if name == "Diagonal": return ops.Diagonal(np.array([1., 2., 3.]))
    if name == "Householder": return ops.Householder(np.eye(3, 1), beta=2.0 if v % 2 else 1.0)
    if name == "Permutation": return ops.Permutation(np.array([1, 0, 2]))
    if name == "Sparse": return ops.Sparse(np.array([1., 2.]), np.array([0, 1]), np.array([1, 2]), (3, 3))
    if name == "Tridiagonal": return ops.Tridiagonal(np.ones(2), np.ones(3), np.ones(2))
    if name == "Transpose": return ops.Transpose(cola.ops.LinearOperator(np.float64, (3, 3), matmat=lambda X: A @ X))
    if name == "KronSum": return ops.KronSum(D, ops.Diagonal(np.ones(2)))
    if name == "Jacobian": return ops.Jacobian(IR.PolyMap(A, np.zeros((3, 3, 3))), np.ones(3))
# phase 1: first instantiation in the given order (variants change payload types of the FIRST instance)
for i in order:
    make(kinds[i], variant)
# phase 2: the fixed flatten suite
verdict = {}
for name in kinds:
    op = make(name, 0)
    try:
        vals, un = op.flatten()
        B = un(vals)
        attrs = c18.reachable_arrays(op)
        verdict[name] = {"n_leaves": len(vals), "leaf_types": sorted({type(v).__name__ for v in vals}), "n_array_attrs": len(attrs),
                         "leaves_are_attrs": sorted(id(v) for v in vals) == sorted(id(a) for _, a in attrs),
                         "roundtrip": bool(np.array_equal(np.asarray(B.to_dense()), np.asarray(op.to_dense())))}
    except Exception as e:
        verdict[name] = {"exception": type(e).__name__ + ": " + str(e)[:120]}
print("VERDICT" + json.dumps(verdict, sort_keys=True))
'''


def run_order(order, variant):
    from cvh import runner
    env = dict(os.environ, PYTHONHASHSEED="0")
    p = subprocess.run([sys.executable, "-c", ORDER_SCRIPT, runner.ROOT, runner.COLA_PATH, json.dumps(order), str(variant)], capture_output=True, text=True, env=env)
    for line in p.stdout.splitlines():
        if line.startswith("VERDICT"):
            return json.loads(line[7:])
    return {"error": (p.stderr or p.stdout)[-800:]}


def diff_verdict(a, b):
    out = []
    for k in sorted(set(a) | set(b)):
        if a.get(k) != b.get(k):
            out.append(f"{k}: {a.get(k)} != {b.get(k)}")
    return "; ".join(out)[:600]
