"""C13 - GMRES returns the residual-minimising iterate of its Krylov space."""
import numpy as np
from hypothesis import strategies as st

from cvh import krylov_ref as KR, oracle

ID = "C13"
LEVEL = "exploration"
BUDGET = {"quick": 5000, "thorough": 60000}
WALL = {"quick": 240, "thorough": 2700}
MIN_CASES = {"quick": 600, "thorough": 6000}
RULE = ("Hypothesis draws an invertible A = X diag(lam) X^-1 (real non-symmetric with conjugate pairs, complex, normal and "
        "non-normal; n 1..30 quick / ..150 thorough), right-hand sides (single / multiple; generic, or sums of g eigenvectors "
        "= grade g, early breakdown), x0 (zero or drawn), m from 1 to n+5 and a tolerance. Oracle: dense minimum of ||b - A x|| "
        "over x0 + K_m(A, r0) (least squares on an orthonormal Krylov basis): (a) cola's residual <= (1+1e-6) min + c eps "
        "|A||x|; (b) <= ||r0||; (c) non-increasing along a chain m = 1..; (d) ~0 once m >= grade; (e) at most m products "
        "(+1 for r0) counted by a wrapper; also via inv(A, GMRES(...)) @ b. Non-trivial: m < grade (truncated), breakdown, "
        "multi-column, or complex. Complex operators also get real right-hand sides with x0 omitted. Sub-check spread: a "
        "normal operator with two eigenvalues 1e-2..1e-8 below the rest and columns [combination of large eigenvectors | "
        "eigenvector, eigenvectors of the small eigenvalues]: every eigenvector column has grade 1 and must be solved in one "
        "step whatever the other columns look like, no column may end above its initial residual."
        " Further: normal operators with condition number 1e3 under tolerances 1e-3..1e-6, judged strictly where the"
        " tolerance provably cannot trigger; systems rescaled by 10^-2..10^6; complex guesses for all-real systems;"
        " the caller's b and x0 must be unchanged; pbar=True."
        " Round 5: c I + N with c = 1e4 / 1e5; one inverse object whose 2-D right-hand-side buffer is refilled in"
        " place between two products.")
ASSUMPTIONS = [
    "tolerances >= 1e-6 are judged only where they cannot trigger: no sub-diagonal entry of the reference Arnoldi relation below 4 tol h21 (or 2 tol, cola's absolute clip) and no Hessenberg column below 40 tol max|H| (gmres masks columns below 10 tol max|H| as padding); otherwise the iterate only promises |r| <~ tol cond(A) |r0| and the case is counted inconclusive",
    "residuals compared at 1e-6 relative plus 1e3*eps*cond(X)*(|A||x|+|b|) plus 1e-6*|r0| (residuals below 1e-6 |r0| count as zero: iterations continued past a breakdown with tol near rounding level leave ~1e-9..1e-7 |r0|); matrices have cond(X) <= ~5 and |lam| in [0.5, 4]",
    "bulk payloads from numpy.default_rng(seed) with the seed a Hypothesis draw",
]
AVOID = set()


def configure(tier, opts):
    from cvh import treeprop as TP
    AVOID.clear()
    AVOID.update(TP.load_avoid(ID, opts))


SUBS = ["minimal", "minimal", "chain", "grade", "via_inv", "zero_residual", "spread"]


@st.composite
def cases(draw, tier):
    sub = draw(st.sampled_from(SUBS))
    nmax = 30 if tier == "quick" else 150
    n = draw(st.integers(1, 10)) if draw(st.integers(1, 4)) > 1 else draw(st.integers(1, nmax))
    kind = draw(st.sampled_from(["real_pairs", "complex", "normal", "real_spd_like", "normal_wide", "shifted"]))
    nrhs = draw(st.sampled_from([0, 0, 1, 2, 3]))
    g = draw(st.integers(1, n))
    case = {"sub": sub, "n": n, "kind": kind, "seed": draw(st.integers(0, 10**6)), "nrhs": nrhs,
            "rhs": draw(st.sampled_from(["generic", "generic", "grade"])), "g": g,
            "x0": draw(st.sampled_from(["zero", "drawn", "none"])), "m": draw(st.integers(1, n + 5)),
            "tol_exp": draw(st.sampled_from([-12, -10, -8, -6])), "crhs": draw(st.integers(1, 6)) == 1}
    if kind == "shifted":
        # c I + N with c = 1e4 / 1e5 times the size of N: perfectly conditioned, every Rayleigh quotient is ~c
        case["tol_exp"] = draw(st.sampled_from([-3, -4, -6]))
        case["shift"] = draw(st.sampled_from([1e4, 1e5, -1e4]))
        if sub in ("chain", "zero_residual"):
            case["sub"] = sub = "minimal"
    if kind == "normal_wide":
        # a normal operator with condition number 1e3 and a loose (but legal) tolerance: still the residual minimiser
        case["tol_exp"] = draw(st.sampled_from([-3, -4, -6]))
        if sub in ("chain", "zero_residual"):
            case["sub"] = sub = "minimal"
    if sub == "grade":
        case["rhs"] = "grade"
        case["m"] = draw(st.integers(g, n + 5))
    if sub == "spread":
        # columns living on very different scales of the spectrum: a generic column next to eigenvectors of eigenvalues
        # 10^-small_exp times smaller than the rest (each column is its own problem)
        case["n"] = n = max(n, 3)
        case["nrhs"] = draw(st.integers(2, 3))
        case["small_exp"] = draw(st.integers(2, 8))
        case["m"] = draw(st.integers(1, n + 3))
        case["cplx"] = draw(st.booleans())
        case["x0"] = draw(st.sampled_from(["zero", "none"]))
        case["first"] = draw(st.sampled_from(["span", "span", "eig"] + ([] if "illcond_generic" in AVOID else ["generic"])))
        case["tol_exp"] = draw(st.sampled_from([-8, -6, -4]))
    # the whole system rescaled by 10^ascale (the minimiser does not change). cola's Arnoldi stops normalising below the
    # absolute value tol / 2: small scales with loose tolerances are open finding F-C13-absolute-breakdown
    if sub in ("minimal", "grade", "via_inv") and kind != "normal_wide":
        case["ascale"] = draw(st.sampled_from([0, 0, 3, 6, -2] + ([] if "abs_breakdown" in AVOID else [-4, -6])))
        if case["ascale"] < 0 and "abs_breakdown" in AVOID:
            case["tol_exp"] = min(case["tol_exp"], -8)
    # a real right-hand side (and guess) for a complex operator
    case["rrhs"] = kind == "complex" and draw(st.integers(1, 3)) == 1
    # round 6: every column of the right-hand side (and of the guess) on its own scale 1e-12..1e6 - the minimiser of a column
    # scales with it and does not depend on the other columns or on the absolute size of the initial residual
    if sub in ("minimal", "grade") and not case.get("ascale") and draw(st.integers(1, 3)) == 1:
        case["colscale"] = [draw(st.sampled_from([-12, -9, -7, -4, 0, 0, 3, 6])) for _ in range(max(nrhs, 1))]
    # round 6: a Hermitian operator handed over with a true SelfAdjoint / PSD declaration, run long enough (30..n+5 steps,
    # n 40..90, condition number 1e2..1e3) for any loss of orthogonality in the basis to show in the residual
    if sub in ("minimal", "grade") and draw(st.integers(1, 12 if tier == "quick" else 6)) == 1:
        case["kind"] = "herm_ann"
        case["n"] = n = draw(st.integers(40, 90)) if draw(st.booleans()) else draw(st.integers(2, 30))
        case["g"] = draw(st.integers(1, n))
        case["m"] = draw(st.integers(min(30, n), n + 5)) if sub == "minimal" else draw(st.integers(case["g"], n + 5))
        case["herm"] = {"cplx": draw(st.booleans()), "pos": draw(st.booleans()), "cond_exp": draw(st.sampled_from([1, 2, 3])),
                        "ann": draw(st.sampled_from(["SelfAdjoint", "PSD"]))}
        case["tol_exp"] = draw(st.sampled_from([-12, -10]))
        case.pop("ascale", None)
    case["pbar"] = draw(st.integers(1, 8)) == 1
    case["cx0"] = draw(st.integers(1, 4)) == 1
    return case


def strategy(tier):
    return cases(tier)


def build(case):
    n, seed = case["n"], case["seed"]
    rng = np.random.default_rng(seed)
    kind = case["kind"]
    cplx = kind == "complex"
    if kind == "herm_ann":
        h = case["herm"]
        cplx = h["cplx"]
        lam = 4.0 * 10.0 ** (-h["cond_exp"] * rng.random(n))
        lam[0] = 4.0
        if n >= 2:
            lam[1] = 4.0 * 10.0 ** -h["cond_exp"]
        if not h["pos"]:
            lam = lam * np.where(rng.random(n) < 0.6, 1, -1)
        X = KR.rand_unitary(n, seed, cplx)
        A = (X * lam) @ X.conj().T
        A = (A + A.conj().T) / 2
    elif kind == "shifted":
        N = rng.standard_normal((n, n)) / np.sqrt(max(n, 1))
        A = case["shift"] * np.eye(n) + N
        X = np.eye(n)
        cplx = False
    elif kind == "real_pairs":
        # eigenvalues: conjugate pairs a +- bi with a>0 plus real ones; built as real block-diagonal similarity
        lam_blocks = []
        D = np.zeros((n, n))
        i = 0
        while i < n:
            if i + 1 < n and rng.random() < 0.5:
                a, b = 0.5 + 3 * rng.random(), 0.5 + 2 * rng.random()
                D[i:i + 2, i:i + 2] = [[a, b], [-b, a]]
                i += 2
            else:
                D[i, i] = (0.5 + 3.5 * rng.random()) * (1 if rng.random() < 0.8 else -1)
                i += 1
        E = rng.standard_normal((n, n))
        E = E / max(np.linalg.norm(E, 2), 1e-12) * 0.6
        X = np.eye(n) + E
        A = X @ D @ np.linalg.inv(X)
        lam = np.linalg.eigvals(D)
    else:
        mag = 0.5 + 3.5 * rng.random(n)
        if kind == "normal_wide":
            mag = 4.0 * 10.0 ** (-3.0 * rng.random(n))
            if n >= 2:
                mag[0], mag[1] = 4.0, 4e-3
        if kind == "complex":
            lam = mag * np.exp(1j * rng.uniform(-1.2, 1.2, n))
        elif kind == "real_spd_like":
            lam = mag
        else:
            lam = mag * np.where(rng.random(n) < 0.8, 1, -1)
        if kind in ("normal", "normal_wide"):
            Q = KR.rand_unitary(n, seed, False)
            A, X = (Q * lam) @ Q.T, Q
        else:
            A, X = KR.nonnormal(lam, seed, cplx, cond_x=5.0)
    k = max(case["nrhs"], 1)
    if case["rhs"] == "grade":
        # sum of g eigenvectors per column -> minimal polynomial degree g w.r.t. that column (distinct eigenvalues)
        w, V = np.linalg.eig(A)
        cols = []
        for j in range(k):
            idx = rng.choice(n, size=min(case["g"], n), replace=False)
            v = V[:, idx] @ (1 + rng.random(len(idx)))
            if not np.iscomplexobj(A):
                # keep real: add conjugates
                v = (v + v.conj()).real if np.abs(v.imag).max() > 1e-12 else v.real
            cols.append(v)
        B = np.stack(cols, axis=1)
        if np.iscomplexobj(A):
            B = B.astype(np.complex128)
    else:
        B = rng.standard_normal((n, k)) + (1j * rng.standard_normal((n, k)) if cplx else 0)
    if case["x0"] == "drawn":
        X0 = rng.standard_normal((n, k)) + (1j * rng.standard_normal((n, k)) if cplx else 0)
    else:
        X0 = np.zeros((n, k), dtype=B.dtype)
    if np.iscomplexobj(A) and case.get("rrhs") and case["rhs"] == "generic":
        B, X0 = np.ascontiguousarray(B.real), np.ascontiguousarray(X0.real)
    elif np.iscomplexobj(A):
        B, X0 = B.astype(np.complex128), X0.astype(np.complex128)
    elif case.get("crhs") and case["rhs"] == "generic":  # complex right-hand side (and guess) for a real operator
        B = B + 1j * rng.standard_normal(B.shape)
        X0 = X0.astype(np.complex128) * (1 + 1j)
    elif case.get("cx0") and case["x0"] == "drawn":  # a complex guess for an all-real system (a guess wider than the rhs dtype)
        X0 = X0 + 1j * rng.standard_normal(X0.shape)
    if case["nrhs"] == 0:
        B, X0 = B[:, 0], X0[:, 0]
    if case.get("ascale"):
        A, B = A * 10.0 ** case["ascale"], B * 10.0 ** case["ascale"]
    if case.get("colscale"):
        sc = 10.0 ** np.array(case["colscale"], dtype=float)
        B, X0 = (B * sc[0], X0 * sc[0]) if B.ndim == 1 else (B * sc[None, :], X0 * sc[None, :])
    return A, B, X0, float(np.linalg.cond(X))


def build_spread(case):
    """normal A = Q diag(lam) Q^H with two eigenvalues 10^-small_exp below the others; column 0 generic or an
    eigenvector of a large eigenvalue, the other columns eigenvectors of the small eigenvalues."""
    n, seed, cplx = case["n"], case["seed"], case["cplx"]
    rng = np.random.default_rng(seed)
    lam = (50.0 + 150.0 * rng.random(n)) * np.where(rng.random(n) < 0.8, 1, -1)
    lam[:2] = 10.0 ** -case["small_exp"] * np.array([3.0, -1.0])
    Q = KR.rand_unitary(n, seed, cplx)
    A = (Q * lam) @ Q.conj().T
    k = case["nrhs"]
    B = np.zeros((n, k), dtype=A.dtype)
    w = rng.standard_normal(n) + (1j * rng.standard_normal(n) if cplx else 0)
    if case["first"] == "span":  # a combination of the eigenvectors of the large eigenvalues only
        w[:2] = 0
    B[:, 0] = Q[:, 2] * 2.0 if case["first"] == "eig" else Q @ w
    for j in range(1, k):
        B[:, j] = Q[:, j - 1] * (0.5 + rng.random())
    eig_cols = list(range(1, k)) + ([0] if case["first"] == "eig" else [])
    return A, B, np.zeros_like(B), eig_cols


def tolerance_active(A, r0, m, tol):
    """True if the Arnoldi tolerance can end the iteration before the Krylov space K_m(A, r0) is exhausted: some
    sub-diagonal entry h_{j+1,j} of the (reference) Arnoldi relation is below 4 tol h_{2,1} or below the absolute clip
    2 tol although the space is not exhausted there. The iterate is then the minimiser over a smaller space and only
    promises |r| <~ tol cond(A) |r0|."""
    n = A.shape[0]
    V = KR.krylov_basis(lambda q: A @ q, r0, min(m, n) + 1, tol=1e-11)
    k = V.shape[1]
    if k <= 1:
        return False
    H = V.conj().T @ (A @ V)
    sub = np.abs(np.diag(H, -1))[:min(m, k - 1)]
    if sub.size and np.any(sub < max(4 * tol * sub[0], 2 * tol)):
        return True
    # gmres treats Hessenberg columns whose largest entry is below 10 tol max|H| as zero padding
    Hm = np.abs(H[:, :min(m, k)])
    return bool(Hm.size and np.any(Hm.max(axis=0) <= 40 * tol * Hm.max()))


PBAR = [False]


class InputMutated(Exception):
    pass


ANN = [None]


def run(A, B, X0, m, tol, x0_none=False):
    from cola.linalg.inverse.gmres import gmres
    op = KR.counting_operator(A, annotations=(ANN[0],) if ANN[0] else ())
    Bc, Xc = B.copy(), X0.copy()
    if PBAR[0]:  # the progress-bar option runs the same iteration through another loop wrapper
        with oracle.quiet():
            x, info = gmres(op, Bc, x0=None if x0_none else Xc, max_iters=m, tol=tol, pbar=True)
    else:
        x, info = gmres(op, Bc, x0=None if x0_none else Xc, max_iters=m, tol=tol)
    if not (np.array_equal(Bc, B) and np.array_equal(Xc, X0)):
        # the iterate is defined relative to the caller's b and x0: they must still be what the caller passed
        raise InputMutated("gmres changed the caller's " + ("initial guess" if np.array_equal(Bc, B) else "right-hand side"))
    return np.asarray(x), info, op


def cols(B):
    return [B] if B.ndim == 1 else [B[:, j] for j in range(B.shape[1])]


def check_spread(case, out):
    A, B, X0, eig_cols = build_spread(case)
    n, m, tol = case["n"], case["m"], 10.0 ** case["tol_exp"]
    out.label("sub:spread", "small:1e-%d" % case["small_exp"], "first:" + case["first"], "complex" if case["cplx"] else "real")
    out.nontrivial = True
    site = "gmres:multi:spread:" + case["first"]
    try:
        x, info, op = run(A, B, X0, m, tol, case["x0"] == "none")
    except Exception as e:
        out.fail("spread", site, oracle.exc_man(e), e)
        return
    eps = np.finfo(np.float64).eps
    for j in range(B.shape[1]):
        bj, xj = B[:, j], x[:, j]
        r, r0 = np.linalg.norm(bj - A @ xj), np.linalg.norm(bj)
        if not np.all(np.isfinite(xj)):
            out.fail("spread", site, "nonfinite", f"col {j}")
        elif r > r0 * (1 + 1e-9) + 1e3 * eps * (np.linalg.norm(A, 2) * np.linalg.norm(xj) + r0):
            out.fail("spread", site, "worse_than_x0", f"col {j}: |r|={r:.3e} > |r0|={r0:.3e}")
        elif j in eig_cols and r > (1e-6 + 10 * tol) * r0 + 1e3 * eps * (np.linalg.norm(A, 2) * np.linalg.norm(xj) + r0):
            # an eigenvector right-hand side has grade 1: one step solves it, whatever the scale of its eigenvalue
            out.fail("spread", site, "nonzero_at_grade", f"col {j} (eigenvector, m={m}): |r|/|r0| = {r / r0:.3e}")


def check(case, out):
    import cola
    sub = case["sub"]
    PBAR[0] = bool(case.get("pbar"))
    ANN[0] = None
    if case["kind"] == "herm_ann" and sub in ("minimal", "grade"):
        h = case["herm"]
        ANN[0] = "PSD" if (h["ann"] == "PSD" and h["pos"]) else "SelfAdjoint"
        out.label("ann:" + ANN[0])
    if case.get("colscale"):
        out.label("colscale")
    if PBAR[0]:
        out.label("pbar")
    if sub == "spread":
        return check_spread(case, out)
    A, B, X0, condx = build(case)
    n, m = case["n"], case["m"]
    tol = 10.0 ** case["tol_exp"]
    x0_none = case["x0"] == "none"
    eps = np.finfo(np.float64).eps
    normA = np.linalg.norm(A, 2)
    cplx = np.iscomplexobj(A)
    out.label("sub:" + sub, "kind:" + case["kind"], "rhs:" + case["rhs"], "x0:" + case["x0"], "nrhs:%d" % case["nrhs"],
              "m:" + ("<n" if m < n else "=n" if m == n else ">n"))
    site = f"gmres:{'multi' if case['nrhs'] >= 2 else 'single'}:{case['rhs']}"
    if case.get("ascale"):
        out.label("ascale:%d" % case["ascale"])
        if case["ascale"] < 0 and tol / 2 > 1e-4 * 10.0 ** case["ascale"]:
            site += ":small_scale"  # cola's absolute normalisation clip tol / 2 is within 1e-4 of the scale of A

    def call(fn):
        try:
            return fn()
        except InputMutated as e:
            out.fail(sub, site, "input_mutated", e)
            return None
        except Exception as e:
            out.fail(sub, site, oracle.exc_man(e), e)
            return None

    def slack(xj, bj):
        return 1e3 * eps * condx * (normA * np.linalg.norm(xj) + np.linalg.norm(bj)) + 1e-300

    grades = []
    for bj, x0j in zip(cols(B), cols(X0)):
        V = KR.krylov_basis(lambda q: A @ q, bj - A @ x0j, n + 1)
        grades.append(V.shape[1])
    out.nontrivial = m < max(grades) or min(grades) < n or case["nrhs"] >= 2 or cplx

    if sub in ("minimal", "grade"):
        res = call(lambda: run(A, B, X0, m, tol, x0_none))
        if res is None:
            return
        x, info, op = res
        if op.calls - 1 > m:
            out.fail(sub, site, "too_many_products", f"{op.calls - 1} products after r0 > m={m}")
        for j, (xj, bj, x0j) in enumerate(zip(cols(x), cols(B), cols(X0))):
            if not np.all(np.isfinite(xj)):
                out.fail(sub, site, "nonfinite", f"col {j}")
                continue
            r = np.linalg.norm(bj - A @ xj)
            r0 = np.linalg.norm(bj - A @ x0j)
            _, rmin, dimk = KR.gmres_optimal(A, bj, x0j, m)
            # cola clips normalisations at tol/2; attainable accuracy past a breakdown is relative to |r0|
            sl = slack(xj, bj) + 10 * tol * r0 + 1e-6 * r0
            if tol >= 1e-6:
                # loose tolerances: strict minimality where the tolerance cannot trigger, nothing where it can
                if tolerance_active(A, bj - A @ x0j, m, tol):
                    out.inconclusive += 1
                    out.label("tolerance_active")
                    continue
                sl = slack(xj, bj) + 1e-6 * r0
            if r > r0 * (1 + 1e-9) + sl:
                out.fail(sub, site, "worse_than_x0", f"col {j}: |r|={r:.3e} > |r0|={r0:.3e} (m={m}, n={n})")
            elif case["kind"] == "normal_wide" and m < grades[j]:
                # condition number 1e3: a truncated Krylov space is determined only up to ~cond^m eps, two correct
                # orthonormalisations span measurably different spaces, so minimality is judged only once the space is full
                out.label("wide:truncated_not_judged")
            elif case["kind"] == "herm_ann" and case["rhs"] == "generic" and m >= n:
                # the Krylov space is the whole space: nothing is ill determined, the residual is at rounding level
                # (calibrated: <= 5e-12 |r0| over 170 systems with condition numbers 1e2 / 1e3 and m up to n + 4)
                if r > 1e-8 * r0 + slack(xj, bj):
                    out.fail(sub, site, "nonzero_full_space", f"col {j}: |r|/|r0| = {r / r0:.3e} with m={m} >= n={n}")
            elif case["kind"] == "herm_ann" and (case["herm"]["cond_exp"] >= 2 or m > 20) and m < n:
                # a truncated Krylov space of an operator with condition number >= 1e2 is determined to a fraction of a
                # percent only (see normal_wide; the same holds after more than ~20 steps on an indefinite spectrum of
                # condition number 10: 0.55 % seen at n = 75, m = 37), and below ~1e-5 |r0| two correct orthonormalisations differ by factors
                # (calibrated: ratio <= 1.03 above 1e-6 |r0|, up to 8 below): factor 1.5 above 1e-5 |r0|, factor 30 on
                # max(minimum, 1e-6 |r0|) below
                out.label("herm_ann:truncated_judged_loosely")
                bound = 1.5 * rmin + sl if rmin > 1e-5 * r0 else 30 * max(rmin, 1e-6 * r0) + sl
                if r > bound:
                    out.fail(sub, site, "not_minimal", f"col {j}: |r|={r:.6e} vs minimum {rmin:.6e} over K_{m} (dim {dimk}), |r0|={r0:.3e}, n={n} (declared {ANN[0]})")
            elif r > (1 + 1e-6) * rmin + sl:
                out.fail(sub, site, "not_minimal", f"col {j}: |r|={r:.6e} vs minimum {rmin:.6e} over K_{m} (dim {dimk}), |r0|={r0:.3e}, n={n}")
            if sub == "grade" and m >= grades[j] and r > sl + 1e-6 * r0:
                out.fail(sub, site, "nonzero_at_grade", f"col {j}: |r|={r:.3e} with m={m} >= grade {grades[j]}")
        return

    if sub == "zero_residual":
        # x0 already solves the system (or b has a zero column): the residual can not exceed that of the initial guess (0)
        Xe = np.asarray(X0 if case["x0"] == "drawn" else np.zeros_like(B))
        Be = A @ Xe
        res = call(lambda: run(A, Be, Xe, m, tol, False))
        if res is None:
            return
        x = res[0]
        if not np.all(np.isfinite(x)):
            out.fail(sub, site, "nonfinite", "GMRES started from the exact solution returned non-finite values")
        elif np.linalg.norm(Be - A @ x) > 1e-10 * (1 + np.linalg.norm(Be)):
            out.fail(sub, site, "worse_than_x0", f"residual {np.linalg.norm(Be - A @ x):.3e} from a zero initial residual")
        return

    if sub == "chain":
        prev = None
        for mm in range(1, min(n + 2, 12) + 1):
            res = call(lambda: run(A, B, X0, mm, tol, x0_none))
            if res is None:
                return
            x = res[0]
            rs = np.array([np.linalg.norm(bj - A @ xj) for xj, bj in zip(cols(x), cols(B))])
            if not np.all(np.isfinite(rs)):
                out.fail(sub, site, "nonfinite", f"m={mm}")
                return
            if prev is not None:
                sl = np.array([slack(xj, bj) for xj, bj in zip(cols(x), cols(B))]) + (10 * tol + 1e-6) * np.array([np.linalg.norm(bj - A @ x0j) for bj, x0j in zip(cols(B), cols(X0))])
                if np.any(rs > prev * (1 + 1e-6) + sl):
                    out.fail(sub, site, "residual_increased", f"m={mm - 1}->{mm}: {prev} -> {rs}")
                    return
            prev = rs
        return

    if sub == "via_inv":
        op = KR.counting_operator(A)
        alg = cola.linalg.GMRES(max_iters=n + 2, tol=tol)
        B2 = (B[:, ::-1] * 0.5 + 1.0) if B.ndim == 2 else None
        if B.ndim == 2 and not (tol >= 1e-6 and any(tolerance_active(A, bb[:, j], n + 2, tol) for bb in (B, B2) for j in range(B.shape[1]))):
            # one inverse object, one right-hand-side buffer: solve, refill the buffer in place, solve again
            def refill():
                Ainv = cola.linalg.inv(KR.counting_operator(A), alg)
                buf = B.copy()
                np.asarray(Ainv @ buf)
                buf[...] = B2
                y2 = np.asarray(Ainv @ buf)
                for xj, bj in zip(cols(y2), cols(buf)):
                    r = np.linalg.norm(bj - A @ xj)
                    if not np.isfinite(r) or r > slack(xj, bj) + 1e-6 * np.linalg.norm(bj):
                        out.fail(sub, "gmres:inv:refilled_rhs" + (":small_scale" if site.endswith(":small_scale") else ""), "residual",
                                 f"second product with the refilled buffer: |r|/|b| = {r / np.linalg.norm(bj):.3e}")
                        return
            call(refill)
        for nm, fn in (("inv", lambda: cola.linalg.inv(op, alg) @ B), ("solve", lambda: cola.linalg.solve(op, B, alg))):
            y = call(fn)
            if y is None:
                continue
            for xj, bj in zip(cols(np.asarray(y)), cols(B)):
                r = np.linalg.norm(bj - A @ xj)
                if tol >= 1e-6 and tolerance_active(A, bj, n + 2, tol):
                    out.inconclusive += 1
                    continue
                if not np.isfinite(r) or r > slack(xj, bj) + 1e-6 * np.linalg.norm(bj):
                    out.fail(sub, "gmres:" + nm + (":small_scale" if site.endswith(":small_scale") else ""), "residual", f"|r|/|b| = {r / np.linalg.norm(bj):.3e} with max_iters = n+2")
        return
