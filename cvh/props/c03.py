"""C03 - operator algebra builds the operator of the corresponding matrix expression."""
import numpy as np
from hypothesis import strategies as st

from cvh import gen, ir as IR, oracle, treeprop as TP

ID = "C03"
LEVEL = "exploration"
FUZZ_SECONDS = 240  # thorough tier: 8 parallel Atheris processes driving this module's strategy
BUDGET = {"quick": 24000, "thorough": 500000}
WALL = {"quick": 200, "thorough": 2400}
MIN_CASES = {"quick": 2000, "thorough": 20000}
RULE = ("Hypothesis draws an algebraic program over {+, -, unary -, c*, *c, /c, c/, @, kron, kronsum, block_diag, sum([..]), "
        "Sum/Product/Kronecker constructors, lazify(densify(.)), no_dispatch} whose leaves are operators of every kind or "
        "plain ndarrays, with scalars of every type (int, float, complex, NumPy scalars, 0-d arrays; zero, negative, "
        "complex); ~12% of programs contain a deliberately shape-incompatible binary node. Oracle: the same program "
        "evaluated with NumPy on the reference matrices (never simplified); incompatible programs must raise. "
        "Non-trivial: >=2 operations, or one operation involving a complex/negative/NumPy scalar, an array operand, an "
        "Identity/ScalarMul/Diagonal operand, or a mismatch (incl. Kronecker sums of non-square operands whose shapes "
        "compensate, a x b with b x a)."
        " Further: cola.block_diag of operands that are BlockDiag with multiplicities, the same operator object as two"
        " operands, column-major operands."
        " Round 5: nested functional Kronecker products with two different Diagonal factors adjacent after flattening.")
ASSUMPTIONS = [
    "expected dtype = numpy result_type over leaf dtypes; Python/NumPy scalars contribute only their kind (real/complex)",
    "c / A is read as c * inv(A); a raised TypeError/NotImplementedError is accepted as a refusal, any other value is a violation",
    "'arr - A' (ndarray on the left of a difference) is not generated: Python never dispatches it to cola (no __rsub__)",
    "a Kronecker sum of non-square operands counts as shape-incompatible",
]
AVOID = set()


def configure(tier, opts):
    AVOID.clear()
    AVOID.update(TP.load_avoid(ID, opts, base=("dup_index", )))


class AlgGen(gen.TreeGen):
    def __init__(self, draw, **kw):
        super().__init__(draw, **kw)
        self.comp_any += ["sub", "div", "relazify", "scale", "sum", "prod"]
        self.comp_sq += ["rdiv"]
        self.bias_sq = ["diag", "eye", "smul"]  # operands that trigger the simplification rules

    def maybe_arr(self, r, c, d, p=4):
        if "arr" not in self.avoid and self.integer(1, p) == 1:
            return {"k": "arr", "a": gen.enc(self.array((r, c)))}
        return self.op(r, c, d)

    def k_sub(self, r, c, d):
        return {"k": "sub", "ch": [self.op(r, c, d), self.maybe_arr(r, c, d)]}

    def k_div(self, r, c, d):
        return {"k": "div", "c": self.scalar(allow_zero=False), "ch": [self.op(r, c, d)]}

    def k_relazify(self, r, c, d):
        return {"k": "relazify", "ch": [self.op(r, c, d)]}

    def k_rdiv(self, r, c, d):
        dt = self.dtype()
        a = self.array((r, r), dt, -2, 2)
        a[np.arange(r), np.arange(r)] = (np.abs(a).sum(1) + 1) * (1 - 2 * self.ints(r, 0, 1))
        child = {"k": self.pick(["dense", "matmat", "lazify"]), "a": gen.enc(a)}
        if r <= 6 and self.boolean():
            child = {"k": "diag", "d": gen.enc(np.diag(a).copy())}
        return {"k": "rdiv", "c": self.scalar(allow_zero=True), "ch": [child]}

    def k_sum(self, r, c, d):
        t = super().k_sum(r, c, d)
        if t["via"] != "builtin":
            for i in range(1 if t["via"] == "op" else 0, len(t["ch"])):
                if self.integer(1, 5) == 1 and "arr" not in self.avoid:
                    t["ch"][i] = {"k": "arr", "a": gen.enc(self.array((r, c)))}
            if t["via"] == "ctor" and all(x["k"] == "arr" for x in t["ch"]):
                pass  # Sum(arr, arr) lazifies both: still an operator
        return t

    def k_prod(self, r, c, d):
        t = super().k_prod(r, c, d)
        if t["via"] == "ctor" and "arr" not in self.avoid:
            for i, ch in enumerate(t["ch"]):
                if self.integer(1, 5) == 1:
                    sh = IR.denote(ch).shape
                    t["ch"][i] = {"k": "arr", "a": gen.enc(self.array(sh))}
        return t

    def _arrify(self, t):
        if "arr" in self.avoid:
            return t
        for i, ch in enumerate(t["ch"]):
            if self.integer(1, 5) == 1:
                t["ch"][i] = {"k": "arr", "a": gen.enc(self.array(IR.denote(ch).shape))}
        return t

    def k_kron(self, r, c, d):
        return self._arrify(super().k_kron(r, c, d))

    def k_kronsum(self, r, c, d):
        return self._arrify(super().k_kronsum(r, c, d))

    def k_bd(self, r, c, d):
        return self._arrify(super().k_bd(r, c, d))

    # ---- deliberately incompatible programs
    def mismatch(self, d):
        kind = self.pick(["sum", "sub", "prod", "kronsum", "sum_ctor", "prod_ctor", "sum_builtin", "kronsum_ctor"])
        r, c = self.integer(1, 5), self.integer(1, 5)
        if kind in ("sum", "sub", "sum_ctor", "sum_builtin"):
            r2, c2 = r, c
            while (r2, c2) == (r, c):
                r2, c2 = self.pick([(r + 1, c), (r, c + 1), (c, r) if r != c else (r + 1, c + 1), (r + 2, c + 1)])
            ch = [self.op(r, c, d), self.op(r2, c2, d)]
            if self.boolean():
                ch.reverse()
            if kind == "sub":
                node = {"k": "sub", "ch": ch}
            else:
                node = {"k": "sum", "via": {"sum": "op", "sum_ctor": "ctor", "sum_builtin": "builtin"}[kind], "ch": ch}
        elif kind in ("prod", "prod_ctor"):
            k1 = self.integer(1, 5)
            k2 = k1 + self.pick([1, 2, -1]) if k1 > 1 else k1 + self.pick([1, 2])
            node = {"k": "prod", "via": "op" if kind == "prod" else "ctor", "ch": [self.op(r, k1, d), self.op(k2, c, d)]}
        else:
            n = self.integer(1, 4)
            if self.integer(1, 3) == 1:
                # two non-square operands whose shapes compensate (a x b with b x a): the assembled shape would be square
                a = self.integer(1, 4)
                b = a + self.pick([1, 2, 3])
                ch = [self.op(a, b, d), self.op(b, a, d)]
                if self.boolean():
                    ch.append(self.op(n, n, d))
                kind += ":compensating"
            else:
                bad = self.op(r, r + self.pick([1, 2]), d)
                ch = [self.op(n, n, d), bad]
            if self.boolean():
                ch.reverse()
            node = {"k": "kronsum", "via": "fn" if kind.startswith("kronsum:") or kind == "kronsum" else "ctor", "ch": ch}
        for _ in range(self.integer(0, 2)):
            w = self.pick(["scale", "neg", "T", "kron", "bd", "H"])
            if w == "scale":
                node = {"k": "scale", "c": self.scalar(), "side": "l", "ch": [node]}
            elif w in ("neg", "T", "H"):
                node = {"k": w, "ch": [node]}
            elif w == "kron":
                node = {"k": "kron", "via": "fn", "ch": [node, self.op(2, 1, 0)]}
            else:
                node = {"k": "bd", "mult": None, "ch": [self.op(1, 2, 0), node]}
        return node, kind


@st.composite
def cases(draw, tier):
    g = AlgGen(draw, avoid=AVOID)
    depth = g.pick([1, 1, 2, 2, 3] + ([4] if tier == "thorough" else []))
    if g.integer(1, 8) == 1:
        tree, kind = g.mismatch(depth - 1)
        return {"tree": tree, "mismatch": kind}
    if g.integer(1, 15) == 1:
        # nested functional Kronecker products whose flattening puts two different Diagonal factors next to each other
        a, m = g.integer(1, 3), g.integer(1, 3)
        D1 = {"k": "diag", "d": gen.enc(g.array((a, ), g.dtype()))}
        D2 = {"k": "diag", "d": gen.enc(g.array((m, ), g.dtype()))}
        X = g.k_dense(g.integer(1, 2), g.integer(1, 3))
        tree = g.pick([lambda: {"k": "kron", "via": "fn", "ch": [D1, {"k": "kron", "via": "fn", "ch": [D2, X]}]},
                       lambda: {"k": "kron", "via": "fn", "ch": [{"k": "kron", "via": "fn", "ch": [X, D1]}, D2]},
                       lambda: {"k": "kron", "via": "fn", "ch": [{"k": "kron", "via": "fn", "ch": [X, D1]}, {"k": "kron", "via": "fn", "ch": [D2, g.k_dense(1, 2)]}]}])()
        return {"tree": tree, "x": g.operand(IR.denote(tree).shape[1], ranks=(1, 2))}
    if g.integer(1, 12) == 1:
        # block-diagonal assembly of operands that are themselves block diagonal with multiplicities
        def small():
            return g.op(g.integer(1, 3), g.integer(1, 3), max(depth - 2, 0))
        inner = {"k": "bd", "ch": [small(), small()], "mult": [g.integer(1, 3), g.integer(1, 2)]}
        ch = [inner, small()] if g.boolean() else [small(), inner]
        if g.integer(1, 3) == 1:
            ch.append({"k": "bd", "ch": [small()], "mult": [2]})
        tree = {"k": "bd", "ch": ch, "mult": None}  # mult None: assembled through cola.block_diag
        return {"tree": tree, "x": g.operand(IR.denote(tree).shape[1], ranks=(1, 2))}
    r, c = TP.target_shape(g, maxn=6)
    root = g.pick([k for k in g.comp_any + (g.comp_sq if r == c else []) if g.ok(k) and g.feasible(k, r, c)])
    tree = getattr(g, "k_" + root)(r, c, depth - 1)
    return {"tree": tree, "x": g.operand(c, ranks=(1, 2))}


def strategy(tier):
    return cases(tier)


def eval_tree(tree, x):
    from cola.ops import LinearOperator
    R = IR.denote(tree)
    ck = TP.Checker(R.exact, IR.tree_eps(tree))
    try:
        A = IR.build(tree)
    except (TypeError, NotImplementedError) as e:
        if tree["k"] == "rdiv":
            return "refused", R
        ck.add("build", oracle.exc_man(e), e)
        return ck.fails, R
    except Exception as e:
        ck.add("build", oracle.exc_man(e), e)
        return ck.fails, R
    if not isinstance(A, LinearOperator):
        ck.add("build", "type", f"program returned {type(A).__name__}, not an operator")
        return ck.fails, R
    if "SelfAdjoint" in TP.scalar_invalidated_annotations(A) or TP.contaminated_by_scalar(tree):
        return "contaminated", R  # open finding F-C05-scalar (recorded under C05) makes the .T/.H short-cuts wrong
    if tuple(A.shape) != R.shape:
        ck.add("shape", "shape", f"A.shape={A.shape} expected {R.shape}")
        return ck.fails, R
    if np.dtype(A.dtype) != R.dtype:
        ck.add("dtype", "dtype", f"A.dtype={np.dtype(A.dtype)} expected {R.dtype}")
    fac = 1e6 if any(n["k"] == "rdiv" for n in IR.nodes(tree)) else 1e3
    ck.value("to_dense", lambda: A.to_dense(), R.M, TP.dense_bound(R), (R.dtype, A.dtype), R.dtype, factor=fac)
    if x is not None:
        dt = np.result_type(R.dtype, x.dtype)
        ck.value("apply", lambda: A @ x, R.M.astype(dt) @ x.astype(dt), R.Mabs @ np.abs(x), (dt, A.dtype), dt, factor=fac)
    return ck.fails, R


def n_ops(tree):
    return sum(1 for n in IR.nodes(tree) if n.get("ch"))


def check(case, out):
    tree = case["tree"]
    if "mismatch" in case:
        out.label("mismatch:" + case["mismatch"])
        out.nontrivial = True
        try:
            A = IR.build(tree)
        except Exception:
            out.label("mismatch:rejected")
            return
        from cola.ops import LinearOperator
        if isinstance(A, LinearOperator):
            out.fail("mismatch_accepted", case["mismatch"], "operator", f"incompatible operands produced {A!r}")
        else:
            out.fail("mismatch_accepted", case["mismatch"], "value", f"incompatible operands produced {type(A).__name__}")
        return
    x = IR.dec(case["x"])
    fails, R = eval_tree(tree, x)
    out.label(*TP.tree_labels(tree, R))
    out.label("root:" + tree["k"])
    if fails == "refused":
        out.refusals += 1
        return
    if fails == "contaminated":
        out.label("contaminated:F-C05-scalar")
        out.inconclusive += 1
        return
    special = False
    for n in IR.nodes(tree):
        if n["k"] in ("arr", "eye", "smul", "diag"):
            special = True
        if "c" in n and isinstance(n["c"], dict) and "t" in n["c"]:
            v = IR.scalar_value(n["c"])
            if n["c"]["t"] not in ("int", "float") or complex(v).real < 0:
                special = True
    out.nontrivial = n_ops(tree) >= 2 or special
    if not fails:
        return

    def operand(sub):
        c = IR.denote(sub).shape[1]
        return TP.default_vec(c, x.dtype) if x.ndim == 1 else TP.default_mat(c, x.shape[1], x.dtype)

    def refails(sub):
        if sub["k"] == "arr":
            return []
        f = eval_tree(sub, operand(sub))[0]
        return [] if f in ("refused", "contaminated") else f

    TP.report(out, tree, fails, lambda s: bool(refails(s)), refails)
