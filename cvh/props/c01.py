"""C01 - an operator acts on arrays exactly as the matrix it represents."""
import numpy as np
from hypothesis import strategies as st

from cvh import gen, ir as IR, oracle, treeprop as TP

ID = "C01"
LEVEL = "exploration"
BUDGET = {"quick": 24000, "thorough": 600000}
WALL = {"quick": 200, "thorough": 2400}
MIN_CASES = {"quick": 2000, "thorough": 20000}
RULE = ("Hypothesis draws an operator-expression tree top-down for a drawn target shape (all kinds of the property, "
        "depth 0-4, leaf dims 1-6, integer payloads in f32/f64/c64/c128) plus right operands; oracle = independent NumPy "
        "reference interpreter. Non-trivial: tree has >=2 nodes, or is a structured (non-Dense) leaf that is non-square, "
        "complex, or multiplied into an operand of another dtype. distinct = distinct canonical-JSON hashes of such cases. One "
        "case in five is an annotated structured operator (Kronecker / BlockDiag / Tridiagonal / sums, Hermitian, PD or unitary by "
        "construction, complex emphasised, declared on leaves and/or the composite), alone or under T / H / product / sum / "
        "Kronecker / block-diagonal / positive scalar / slice with equal or permuted index sets."
        " Further: right / left / transposed products interleaved on one operator object with operand widths taken"
        " from the dimensions inside the tree and the first product repeated; column-major (Fortran-ordered) operands;"
        " the same operator object as two children of a node.")
ASSUMPTIONS = [
    "NumPy backend only, with the harness shim for vmap/linear_transpose/sparse_csr/to_np/jvp (DESIGN 3.1)",
    "integer payloads: exact equality demanded while |A||x| < 2^22 (f32) / 2^50 (f64); otherwise |err| <= 1e3*eps*|A||x|",
    "expected dtype = numpy result_type over leaf dtypes; Python/NumPy scalars contribute only their kind",
    "Jacobian/Hessian exercise cola's plumbing through analytic jvp/vjp supplied by the harness, not an autodiff engine",
]

AVOID = set()


def configure(tier, opts):
    from cvh import runner
    AVOID.clear()
    for f in runner.load_findings(ID):
        if f.get("status") == "open":
            AVOID.update(f.get("avoid", []))
    AVOID.add("dup_index")  # Sliced with repeated index positions: open finding F-C20-dupidx (recorded under C20)
    if "noavoid" in opts:
        AVOID.clear()


def target_shape(g):
    mode = g.pick(["sq", "sq", "any", "any", "row", "col", "verywide"])
    if mode == "sq":
        n = g.integer(1, 8)
        return n, n
    if mode == "row":
        return 1, g.integer(1, 12)
    if mode == "col":
        return g.integer(1, 12), 1
    if mode == "verywide":
        r = g.integer(1, 2)
        return r, g.integer(8 * r + 1, 8 * r + 8)
    return g.integer(1, 8), g.integer(1, 8)


@st.composite
def cases(draw, tier):
    emph = draw(st.sampled_from(["any", "any", "any", "any", "ann", "any", "any", "kronprod", "any", "any", "any", "any", "ann", "any", "any", "eyesum"]))
    g = gen.TraitGen(draw, avoid=AVOID, dtypes=gen.CPLX + gen.CPLX + gen.ALLDT if emph == "ann" else gen.ALLDT)
    if emph == "ann":
        # annotated wrappers around structured (by construction Hermitian / positive definite / unitary) operators, real
        # and complex, alone or under one combinator: the annotation-driven short-cuts of products and transposes
        tree = g.annotated(g.integer(1, 6), g.pick([0, 1, 1, 2]))
        r, c = IR.denote(tree).shape
    elif emph == "eyesum":
        # sums of three or more terms that start with an Identity (I + A + B, I - A - B): the pass-through first term hands
        # the operand itself to whatever accumulates the sum
        r = c = g.integer(1, 8)
        tree = {"k": "sum", "via": g.pick(["op", "ctor", "builtin"]), "ch": [g.k_eye(r, c)] + [g.op(r, c, g.pick([0, 0, 1])) for _ in range(g.integer(2, 3))]}
    elif emph == "kronprod" and "kron" not in AVOID:
        # round 6: products of two Kronecker operators with pairwise conforming leading factors and unequal factor counts
        r, c = g.integer(1, 12), g.integer(1, 12)
        tree = g.k_kronprod(r, c)
        if g.boolean():
            tree = g.pick([{"k": "T", "ch": [tree]}, {"k": "sum", "via": "op", "ch": [tree, g.op(r, c, 0)]}, {"k": "neg", "ch": [tree]}])
            r, c = IR.denote(tree).shape
    else:
        r, c = target_shape(g)
        depth = g.pick([0, 1, 1, 2, 2, 3] + ([4] if tier == "thorough" else []))
        tree = g.op(r, c, depth)
    return {"tree": tree, "x": g.operand(c, ranks=(1, )), "X": g.operand(c, ranks=(2, ))}


def strategy(tier):
    return cases(tier)


# ----------------------------------------------------------------------------- evaluation
def eval_tree(tree, xs, want_all=True):
    """Run every C01 sub-check on `tree` with right operands xs (ndarrays). Returns [(sub, man, detail)]."""
    import cola
    fails = []
    R = IR.denote(tree)
    teps = IR.tree_eps(tree)
    try:
        A = IR.build(tree)
    except Exception as e:
        return [("build", oracle.exc_man(e), str(e))], R
    if "SelfAdjoint" in TP.scalar_invalidated_annotations(A) or TP.contaminated_by_scalar(tree):
        return "contaminated", R  # open finding F-C05-scalar (recorded under C05) makes the .T/.H short-cuts wrong
    if tuple(A.shape) != tuple(R.shape):
        fails.append(("shape", "shape", f"A.shape={A.shape} expected {R.shape}"))
        return fails, R
    if np.dtype(A.dtype) != R.dtype:
        fails.append(("dtype", "dtype", f"A.dtype={np.dtype(A.dtype)} expected {R.dtype}"))

    def one(sub, fn, yref, bound, dts, expect_dt):
        try:
            y = fn()
        except Exception as e:
            fails.append((sub, oracle.exc_man(e), str(e)))
            return
        if not isinstance(y, np.ndarray):
            fails.append((sub, "type", f"returned {type(y).__name__}"))
            return
        res = oracle.compare(y, yref, bound, R.exact, dts, eps=teps)
        if res is not None:
            fails.append((sub, res[0], res[1]))
        elif y.dtype != expect_dt:
            fails.append((sub, "dtype", f"result dtype {y.dtype} expected {expect_dt}"))

    for x in xs:
        dt = np.result_type(R.dtype, x.dtype)
        yref = R.M.astype(dt) @ x.astype(dt)
        bound = R.Mabs @ np.abs(x)
        one("matvec" if x.ndim == 1 else "matmat", lambda x=x: A @ x, yref, bound, (dt, A.dtype), dt)
    ones = np.ones(R.shape[1])
    bound = np.maximum(R.Mabs, (R.Mabs @ ones)[:, None] * 0)  # dense entries: bound by themselves
    bound_dense = np.maximum(R.Mabs, 0)
    one("to_dense", lambda: A.to_dense(), R.M, bound_dense + (0 if R.exact else 1) * np.max(R.Mabs, initial=0), (R.dtype, A.dtype), R.dtype)
    if want_all:
        one("densify", lambda: cola.densify(A), R.M, bound_dense + (0 if R.exact else 1) * np.max(R.Mabs, initial=0), (R.dtype, A.dtype), R.dtype)
        one("generic_to_dense", lambda: cola.ops.LinearOperator.to_dense(A), R.M,
            bound_dense + (0 if R.exact else 1) * np.max(R.Mabs, initial=0), (R.dtype, A.dtype), R.dtype)
        # the same operator object used from the right, from the left and through its transpose, with operand widths
        # taken from the dimensions that occur inside the tree (scratch space of a node is sized by its child's shape
        # and the operand width), and the first right product repeated afterwards
        if not fails and xs:
            dtl = xs[-1].dtype
            dt = np.result_type(R.dtype, dtl)
            r, c = R.shape
            widths = sorted({d for nd in IR.nodes(tree) for d in IR.denote(nd).shape if 1 <= d <= 8} | {1})[:4] if IR.size(tree) <= 12 else [1]
            for k in widths:
                Yr = (np.arange(c * k).reshape(c, k) % 5 - 2).astype(dtl)
                Yl = (np.arange(k * r).reshape(k, r) % 3 - 1).astype(dtl)
                Yt = (np.arange(k * r).reshape(r, k) % 4 - 1).astype(dtl)
                one("right_w%d" % k, lambda: A @ Yr, R.M.astype(dt) @ Yr.astype(dt), R.Mabs @ np.abs(Yr), (dt, A.dtype), dt)
                one("left_then", lambda: Yl @ A, Yl.astype(dt) @ R.M.astype(dt), np.abs(Yl) @ R.Mabs, (dt, A.dtype), dt)
                one("transpose_then", lambda: A.T @ Yt, R.M.T.astype(dt) @ Yt.astype(dt), R.Mabs.T @ np.abs(Yt), (dt, A.dtype), dt)
                one("right_again", lambda: A @ Yr, R.M.astype(dt) @ Yr.astype(dt), R.Mabs @ np.abs(Yr), (dt, A.dtype), dt)
                if fails:
                    break
    return fails, R


def default_operands(tree, like):
    c = IR.denote(tree).shape[1]
    outs = []
    for x in like:
        if x.ndim == 1:
            outs.append((np.arange(c) % 3 - 1).astype(x.dtype) + (1j if x.dtype.kind == "c" else 0))
        else:
            k = x.shape[1]
            outs.append(((np.arange(c * k).reshape(c, k) % 5) - 2).astype(x.dtype) + (1j if x.dtype.kind == "c" else 0))
    return outs


def check(case, out):
    tree = case["tree"]
    xs = [IR.dec(case["x"]), IR.dec(case["X"])]
    fails, R = eval_tree(tree, xs)
    r, c = R.shape
    ks = IR.kinds(tree)
    out.label(*["kind:" + k for k in ks])
    out.label("depth:%d" % IR.depth(tree), "shape:" + gen.shape_class(r, c), "opdtype:" + IR.DTN[R.dtype],
              "xdtype:" + case["x"]["dt"], "Xdtype:" + case["X"]["dt"])
    if fails == "contaminated":
        out.label("contaminated:F-C05-scalar")
        out.inconclusive += 1
        return
    n = IR.size(tree)
    mixed = any(x.dtype != R.dtype for x in xs)
    out.nontrivial = n >= 2 or (tree["k"] not in ("dense", "lazify") and (r != c or R.dtype.kind == "c" or mixed))
    if not fails:
        return
    # blame: smallest subtree that fails stand-alone with default operands of the same dtypes
    def fails_alone(sub):
        f, _ = eval_tree(sub, default_operands(sub, xs), want_all=True)
        return bool(f) and f != "contaminated"

    culprit = oracle.blame(tree, fails_alone)
    if culprit is not tree:
        cf, _ = eval_tree(culprit, default_operands(culprit, xs))
        if cf and cf != "contaminated":
            fails = cf
    site = oracle.site_of(culprit)
    seen = set()
    for sub, man, detail in fails:
        if (sub, man) in seen:
            continue
        seen.add((sub, man))
        out.fail(sub, site, man, detail)
