"""C20 - indexing and slicing an operator match indexing the represented matrix."""
import numpy as np
from hypothesis import strategies as st

from cvh import gen, ir as IR, oracle, treeprop as TP

ID = "C20"
LEVEL = "exploration"
FUZZ_SECONDS = 240  # thorough tier: 8 parallel Atheris processes driving this module's strategy
BUDGET = {"quick": 24000, "thorough": 500000}
WALL = {"quick": 200, "thorough": 2400}
MIN_CASES = {"quick": 2000, "thorough": 20000}
RULE = ("Hypothesis draws a C01-style operator tree (square, tall, wide) and an index expression from the grammar "
        "A[i] | A[i,j] | A[i,s] | A[s,j] | A[s] | A[s1,s2] | A[[i..],[j..]] with Python ints in [-n,n), general slices "
        "(None/negative/out-of-range start, stop, step incl. empty selections) and integer index arrays (negative entries, "
        "repeated rows); sub-operators are densified and multiplied into real/complex operands. Oracle: the same expression "
        "on the NumPy reference matrix (two index arrays select the sub-matrix M[r][:,c] per Sliced's docstring; two lists "
        "select paired entries). Non-trivial: non-square or non-Dense operator, negative/strided/empty slice, index array, "
        "list pair, or complex operand. One A[s1,s2] case in four passes the very same index array object (negative "
        "entries) for both axes of a possibly non-square operator."
        " Further: the indexed operator may itself be a python-slice view of a larger one, list pairs of 31..70"
        " entries, index arrays of dtype int8 / int16 / int32 on axes of 64..127 positions.")
ASSUMPTIONS = [
    "two index arrays mean the sub-matrix M[rows][:, cols] (docstring of Sliced); two Python lists mean paired entries (tests/test_operators.py::test_get_item)",
    "NotImplementedError for an index form the signature does not list is a clean rejection, not a failure",
    "index arrays that build a sub-operator (A[rows], A[rows, cols]) have distinct positions; repeated positions are exercised only by the stored input of open finding F-C20-dupidx",
]
AVOID = set()


def configure(tier, opts):
    AVOID.clear()
    AVOID.update(TP.load_avoid(ID, opts, base=("dup_index", )))


def gen_slice(g, n):
    lo, hi = -n - 2, n + 2
    start = g.pick([None, None, "v"])
    stop = g.pick([None, None, "v"])
    step = g.pick([None, None, 1, 2, 3, -1, -2, -3])
    return {"sl": [g.integer(lo, hi) if start == "v" else None, g.integer(lo, hi) if stop == "v" else None, step]}


def gen_ix(g, n, unique):
    m = g.integer(0 if n == 0 else 1, n + 1 if not unique else n)
    if unique:
        pos = g.draw(st.lists(st.integers(0, n - 1), min_size=m, max_size=m, unique=True))
        return {"ix": [p - n if g.boolean() else p for p in pos]}
    return {"ix": [g.integer(-n, n - 1) for _ in range(m)]}


def gen_sel(g, n, unique):
    return gen_slice(g, n) if g.boolean() else gen_ix(g, n, unique)


@st.composite
def cases(draw, tier):
    g = gen.TreeGen(draw, avoid=AVOID)
    r, c = TP.target_shape(g, maxn=6)
    depth = g.pick([0, 0, 1, 1, 2] + ([3] if tier == "thorough" else []))
    tree = g.op(r, c, depth)
    if r == c and g.integer(1, 4) == 1:  # a base operator carrying a (true) declaration
        tree = g.k_ann(r, r, 0)
    elif g.integer(1, 6) == 1:
        # the operator is itself a slice (python slices on both axes) of a larger one: nested slicing A[s0, s1][t0, t1]
        R, C = r + g.integer(0, 3), c + g.integer(0, 3)
        g2 = gen.TreeGen(draw, avoid=AVOID | {"index_array"})
        tree = {"k": "slice", "ch": [g.op(R, C, max(depth - 1, 0))], "s0": g2.index_for(r, R), "s1": g2.index_for(c, C)}
    if g.integer(1, 16) == 1:
        # a long axis (64..127 positions) indexed by an index array of a narrow integer dtype, negative entries included
        r = g.integer(64, 127)
        c = g.integer(1, 3)
        tree = {"k": "dense", "a": gen.enc(g.array((r, c)))} if g.boolean() else {"k": "T", "ch": [{"k": "dense", "a": gen.enc(g.array((c, r)))}]}
        m = g.integer(1, 6)
        pos = g.draw(st.lists(st.integers(0, r - 1), min_size=m, max_size=m, unique=True))
        dt = g.pick(["i1", "i1", "i2", "i4"])
        ix = [p - r if (g.boolean() and p - r >= -128) else p for p in pos]
        if dt == "i1":
            ix = [v for v in ix if -128 <= v <= 127] or [0]
        idx = {"form": "s", "a": {"ix": ix, "dt": dt}}
        return {"tree": tree, "idx": idx, "row": g.integer(0, 7), "X": g.operand(c, ranks=(1, 2))}
    form = g.pick(["i", "ij", "is", "sj", "s", "ss", "ss", "ll"])
    uniq = "dup_index" in AVOID
    idx = {"form": form}
    if form in ("i", "ij", "is"):
        idx["a"] = {"i": g.integer(-r, r - 1)}
    if form in ("ij", "sj"):
        idx["b"] = {"i": g.integer(-c, c - 1)}
    if form == "is":
        idx["b"] = gen_sel(g, c, False)
    if form == "sj":
        idx["a"] = gen_sel(g, r, False)
    if form == "s":
        idx["a"] = gen_sel(g, r, uniq)
    if form == "ss":
        idx["a"] = gen_sel(g, r, uniq)
        idx["b"] = gen_sel(g, c, uniq)
        if r == c and g.integer(1, 3) == 1:
            # the same positions on both axes, in a different order (a permuted principal sub-matrix is not symmetric)
            pos = list(np.arange(r)[IR.dec_index(idx["a"])] % r)
            if len(set(pos)) == len(pos) and len(pos) >= 2:
                perm = g.draw(st.permutations(pos))
                idx["a"], idx["b"] = {"ix": [int(p) for p in pos]}, {"ix": [int(p) for p in perm]}
        if min(r, c) >= 1 and g.integer(1, 4) == 1:
            # one index array object used for both axes (negative entries count from the end of each axis separately)
            sh = gen_ix(g, min(r, c), uniq)
            if not uniq or all(len({p % n for p in sh["ix"]}) == len(sh["ix"]) for n in (r, c)):
                idx["a"], idx["b"], idx["shared"] = sh, {"ix": list(sh["ix"])}, True
    if form == "ll":
        m = g.integer(1, 4) if g.integer(1, 6) > 1 else g.pick([31, 32, 33, 45, 70])  # long lists too
        idx["a"] = {"li": [g.integer(-r, r - 1) for _ in range(m)]}
        idx["b"] = {"li": [g.integer(-c, c - 1) for _ in range(m)]}
    case = {"tree": tree, "idx": idx, "row": g.integer(0, 7)}
    if form in ("s", "ss"):
        nc = c if form == "s" else len(np.arange(c)[IR.dec_index(idx["b"])])
        case["X"] = g.operand(nc, ranks=(1, 2))
    return case


def strategy(tier):
    return cases(tier)


def pyindex(idx):
    f = idx["form"]
    a = IR.dec_index(idx["a"]) if "a" in idx else None
    b = IR.dec_index(idx["b"]) if "b" in idx else None
    if f in ("i", "s"):
        return a
    if idx.get("shared"):
        return (a, a)  # the very same array object on both axes
    return (a, b)


def ref_index(M, idx):
    f = idx["form"]
    a = IR.dec_index(idx["a"]) if "a" in idx else None
    b = IR.dec_index(idx["b"]) if "b" in idx else None
    if f == "i":
        return M[a]
    if f == "s":
        return M[a]
    if f == "ss":
        return M[a][:, b]
    if f == "ll":
        return M[a, b]
    return M[a, b]


def eval_case(tree, idx, X, row=None):
    R = IR.denote(tree)
    ck = TP.Checker(R.exact, IR.tree_eps(tree))
    try:
        A = IR.build(tree)
    except Exception as e:
        ck.add("build", oracle.exc_man(e), e)
        return ck.fails, R
    if "SelfAdjoint" in TP.scalar_invalidated_annotations(A) or TP.contaminated_by_scalar(tree):
        return "contaminated", R  # open finding F-C05-scalar (recorded under C05)
    ref = ref_index(R.M, idx)
    refabs = ref_index(R.Mabs, idx)
    form = idx["form"]
    try:
        got = A[pyindex(idx)]
    except NotImplementedError as e:
        return "refused", R
    except Exception as e:
        ck.add("getitem:" + form, oracle.exc_man(e), e)
        return ck.fails, R
    from cola.ops import LinearOperator
    if form in ("s", "ss"):
        if not isinstance(got, LinearOperator):
            ck.add("getitem:" + form, "type", f"returned {type(got).__name__}")
            return ck.fails, R
        if tuple(got.shape) != ref.shape:
            ck.add("sub_shape", "shape", f"{got.shape} expected {ref.shape}")
            return ck.fails, R
        if np.dtype(got.dtype) != R.dtype:
            ck.add("sub_dtype", "dtype", f"{got.dtype} expected {R.dtype}")
        bd = refabs + (0 if R.exact else 1) * np.max(R.Mabs, initial=0)
        ck.value("sub_dense", lambda: got.to_dense(), ref, bd, (R.dtype, got.dtype), R.dtype)
        if X is not None:
            dt = np.result_type(R.dtype, X.dtype)
            ck.value("sub_apply", lambda: got @ X, ref.astype(dt) @ X.astype(dt), refabs @ np.abs(X), (dt, got.dtype), dt)
        # the sub-operator is an operator like any other: read one of its rows and densify its transpose
        if ref.shape[0] > 0 and ref.shape[1] > 0 and row is not None:
            i = row % ref.shape[0]
            bdr = refabs[i] + (0 if R.exact else 1) * np.max(R.Mabs, initial=0)
            ck.value("sub_row", lambda: got[i], ref[i], bdr, (R.dtype, got.dtype), R.dtype)
            ck.value("sub_T", lambda: got.T.to_dense(), ref.T, bd.T, (R.dtype, got.dtype), R.dtype)
    else:
        bd = np.asarray(refabs) + (0 if R.exact else 1) * np.max(R.Mabs, initial=0)
        ck.value("entries:" + form, lambda: got, np.asarray(ref), bd, (R.dtype, ), R.dtype)
    return ck.fails, R


def check(case, out):
    tree, idx = case["tree"], case["idx"]
    X = IR.dec(case["X"]) if "X" in case else None
    fails, R = eval_case(tree, idx, X, case.get("row"))
    out.label(*TP.tree_labels(tree, R))
    out.label("form:" + idx["form"] + (":shared_array" if idx.get("shared") else ""))
    for key in ("a", "b"):
        if key in idx:
            s = idx[key]
            if "sl" in s:
                st_ = s["sl"][2]
                out.label("slice:" + ("neg" if (st_ or 1) < 0 else "strided" if (st_ or 1) > 1 else "unit"))
                if len(np.arange(R.shape[0 if key == "a" else 1])[slice(*s["sl"])]) == 0:
                    out.label("slice:empty")
            elif "ix" in s:
                out.label("index_array")
    if fails == "contaminated":
        out.label("contaminated:F-C05-scalar")
        out.inconclusive += 1
        return
    if fails == "refused":
        out.refusals += 1
        out.label("refused")
        return
    r, c = R.shape
    special = any(("ix" in idx.get(k, {})) or ("li" in idx.get(k, {})) or ("sl" in idx.get(k, {}) and (idx[k]["sl"][2] or 1) != 1) for k in ("a", "b"))
    out.nontrivial = r != c or tree["k"] not in ("dense", "lazify") or special or (X is not None and X.dtype.kind == "c")
    if not fails:
        return
    site = oracle.site_of(tree) if IR.size(tree) == 1 else "tree:" + tree["k"]
    if idx["form"] in ("s", "ss"):
        for key, n in (("a", r), ("b", c)):
            ix = idx.get(key, {}).get("ix")
            if ix is not None and len({i % n for i in ix}) < len(ix):
                site += "+dupidx"
                break
    seen = set()
    for sub, man, detail in fails:
        if (sub, man) not in seen:
            seen.add((sub, man))
            out.fail(sub, site, man, detail)
