"""C14 - Lanczos returns an orthonormal Krylov basis and the projected tridiagonal matrix."""
import numpy as np
from hypothesis import strategies as st

from cvh import krylov_ref as KR, oracle

ID = "C14"
LEVEL = "exploration"
BUDGET = {"quick": 8000, "thorough": 120000}
WALL = {"quick": 240, "thorough": 2700}
MIN_CASES = {"quick": 800, "thorough": 8000}
RULE = ("Hypothesis draws a Hermitian operator (real symmetric / complex Hermitian, definite / indefinite, simple, repeated and "
        "tightly clustered spectra, n 1..40 quick / ..300 thorough; dense, or structured: Diagonal, Identity, ScalarMul, "
        "Kronecker of Hermitians), a start vector (generic / an eigenvector / a sum of g eigenvectors / batched (n,b)), "
        "max_iters in 1..n+5 and tol in [1e-12,1e-3]; start vectors are rescaled by 10^-30..10^12 (the factorisation depends on v/|v| only). Oracle (validity predicates against the dense matrix M): Q^H Q = I; "
        "Q[:,0] = v/|v|; T real symmetric tridiagonal with off-diagonal >= 0 and T = Q^H M Q; M Q - Q T vanishes outside the "
        "last column; the first j columns span K_j(M,v); cols <= min(max_iters,n); when the Krylov space is exhausted "
        "(max_iters >= grade g, tol above rounding) cols == g and eig(T) is a sub-multiset of eig(M); lanczos_eigs ascending "
        "and consistent with T; batched == per-column when nothing terminates early. Non-trivial: truncated (max_iters < g), "
        "early termination, repeated/clustered spectrum, complex, batched, or structured operator."
        " Further: tolerance 0 with generic starts, pbar=True, sub-check alg_object (Lanczos(...)(A) after the same"
        " object was applied to a smaller operator), batched members living in blocks of very different scale (none"
        " may be stopped by another member's scale)."
        " Round 5: a (complex) start vector held by the Lanczos object; lanczos_eigs returns as many Ritz pairs as"
        " lanczos returns columns.")
ASSUMPTIONS = [
    "tolerances relative to max(1e-10, 10 tol) * max(1, |M|) because cola clips normalisations at tol/2",
    "the grade g is computed densely with threshold 1e-11; cases whose (g+1)-th Krylov vector has relative norm within [1e-13, 100 tol] are borderline and counted inconclusive for the early-termination checks",
]
SUBS = ["factorisation", "factorisation", "factorisation", "eigs", "batched", "alg_object"]
AVOID = set()


def configure(tier, opts):
    from cvh import treeprop as TP
    AVOID.clear()
    AVOID.update(TP.load_avoid(ID, opts))


@st.composite
def cases(draw, tier):
    sub = draw(st.sampled_from(SUBS))
    nmax = 40 if tier == "quick" else 300
    n = draw(st.integers(1, 10)) if draw(st.integers(1, 4)) > 1 else draw(st.integers(1, nmax))
    op = draw(st.sampled_from(["dense", "dense", "dense", "diag", "eye", "smul", "kron"]))
    if op == "kron" and n < 4:
        op = "dense"
    if sub == "batched" and n >= 4 and draw(st.integers(1, 4)) == 1:
        op = "blocks"  # block diagonal of two Hermitian blocks on very different scales, batch members living in different blocks
    return {"sub": sub, "n": n, "op": op, "cplx": draw(st.booleans()),
            "spec": draw(st.sampled_from(["simple", "indefinite", "repeated", "clustered", "singular"])), "cstart": draw(st.integers(1, 5)) == 1,
            "seed": draw(st.integers(0, 10**6)), "start": draw(st.sampled_from(["generic", "generic", "eigvec", "grade"])),
            "g": draw(st.integers(1, n)), "max_iters": draw(st.integers(1, n + 5)), "tol_exp": draw(st.sampled_from([-12, -10, -8, -6, -3])),
            "batch": draw(st.integers(2, 3)), "mixed": draw(st.booleans()),
            "vscale_exp": draw(st.sampled_from([0, 0, 0, 0, -20, -12, -30, 6, 12])),
            # tol = 0 (never stop early): only with generic start vectors, whose Krylov space is all of C^n
            "tol_zero": draw(st.integers(1, 5)) == 1, "pbar": draw(st.integers(1, 8)) == 1,
            # round 6: the factorisation is judged after ANOTHER factorisation of the same size has been computed
            "then_another": draw(st.integers(1, 3)) == 1}


def strategy(tier):
    return cases(tier)


def build(case):
    import cola
    n, seed, cplx = case["n"], case["seed"], case["cplx"]
    rng = np.random.default_rng(seed)
    spec = case["spec"]
    if spec == "simple":
        lam = 1.0 + np.arange(n) + 0.3 * rng.random(n)
    elif spec == "indefinite":
        lam = (1.0 + np.arange(n) + 0.3 * rng.random(n)) * np.where(rng.random(n) < 0.5, -1, 1)
    elif spec == "singular":  # a zero eigenvalue (two when n >= 4): start vectors in the null space have A v = 0 exactly for Diagonal
        lam = 1.0 + np.arange(n) + 0.3 * rng.random(n)
        lam[: (2 if n >= 4 else 1)] = 0.0
        rng.shuffle(lam)
    elif spec == "repeated":
        lam = rng.choice(np.array([1.0, 2.0, 5.0])[:max(1, min(3, n))], size=n)
    else:
        lam = np.concatenate([1.0 + 1e-6 * rng.random(n // 2), 3.0 + 1e-6 * rng.random(n - n // 2)])
    op = case["op"]
    if op == "blocks":
        h = n // 2
        M1, _ = KR.hermitian(1.0 + np.arange(h) + 0.3 * rng.random(h), seed, cplx)
        M2, _ = KR.hermitian(1.0 + np.arange(n - h) + 0.3 * rng.random(n - h), seed + 1, cplx)
        sc = 10.0 ** -float(2 + seed % 5)
        M = np.zeros((n, n), dtype=M1.dtype)
        M[:h, :h], M[h:, h:] = M1, sc * M2
        A = cola.SelfAdjoint(cola.ops.Dense(M))
        vs = []
        for j in range(case["batch"]):
            v = np.zeros(n, dtype=M.dtype)
            blk = slice(0, h) if j % 2 == 0 else slice(h, n)
            v[blk] = rng.standard_normal(len(range(*blk.indices(n)))) + (1j * rng.standard_normal(len(range(*blk.indices(n)))) if cplx else 0)
            vs.append(v)
        return A, M, vs
    if op == "dense":
        M, Q = KR.hermitian(lam, seed, cplx)
        A = cola.SelfAdjoint(cola.ops.Dense(M))
    elif op == "diag":
        M = np.diag(lam)
        A = cola.ops.Diagonal(lam.copy())
    elif op == "eye":
        M = np.eye(n)
        A = cola.ops.Identity((n, n), np.float64)
    elif op == "smul":
        M = 2.5 * np.eye(n)
        A = cola.ops.ScalarMul(2.5, (n, n), dtype=np.float64)
    else:
        a = [d for d in range(2, n) if n % d == 0]
        if not a:
            M, Q = KR.hermitian(lam, seed, cplx)
            A = cola.SelfAdjoint(cola.ops.Dense(M))
        else:
            a = a[0]
            M1, _ = KR.hermitian(1.0 + np.arange(a) + 0.1 * rng.random(a), seed, cplx)
            M2, _ = KR.hermitian(1.0 + 0.5 * np.arange(n // a) + 0.1 * rng.random(n // a), seed + 1, False)
            M = np.kron(M1, M2)
            A = cola.ops.Kronecker(cola.SelfAdjoint(cola.ops.Dense(M1)), cola.SelfAdjoint(cola.ops.Dense(M2.astype(M1.dtype))))
    w, V = np.linalg.eigh(M)
    b = case["batch"] if case["sub"] == "batched" else 1
    vs = []
    for j in range(b):
        if case["start"] == "generic" or (j >= 1 and case.get("mixed")):  # mixed batch: one special member, the rest generic
            v = rng.standard_normal(n) + (1j * rng.standard_normal(n) if np.iscomplexobj(M) else 0)
        elif case["start"] == "eigvec":
            # singular spectrum: a null vector - exactly (A v = 0 in exact arithmetic) for Diagonal operators; for dense /
            # Kronecker operators A v is rounding noise, which lanczos does not recognise (open finding F-C14-nullstart)
            null_ok = case["op"] == "diag" or "null_start" not in AVOID or case.get("force_null")
            col = int(np.argmin(np.abs(w))) if (spec == "singular" and null_ok) else int(np.argmax(np.abs(w)) if spec == "singular" else rng.integers(0, n))
            v = V[:, col] * (1.5 + rng.random())
        else:
            idx = rng.choice(n, size=min(case["g"], n), replace=False)
            v = V[:, idx] @ (1 + rng.random(len(idx)))
        v = v.astype(M.dtype)
        if case.get("cstart") and not np.iscomplexobj(M) and case["sub"] != "batched":
            v = v.astype(np.complex128) * (1 + 0.5j) + 1j * rng.standard_normal(n) * (case["start"] == "generic")
        # the factorisation depends on v only through v / |v|: start vectors of any magnitude
        vs.append(v * 10.0 ** case.get("vscale_exp", 0))
    return A, M, vs


def dense_T(T):
    return np.asarray(T.to_dense())


def verify(out, sub, site, M, v, Q, T, max_iters, tol, span_upto=8):
    """All factorisation predicates for one (Q, T). Returns number of columns."""
    n = M.shape[0]
    Qd = np.asarray(Q.to_dense()) if hasattr(Q, "to_dense") else np.asarray(Q)
    Td = dense_T(T) if hasattr(T, "to_dense") else np.asarray(T)
    cols = Qd.shape[1]
    rel = max(1e-10, 10 * tol)
    scale = max(1.0, np.abs(M).max())
    if not (np.all(np.isfinite(Qd)) and np.all(np.isfinite(Td))):
        out.fail(sub, site, "nonfinite", f"Q or T has non-finite entries (cols={cols})")
        return cols
    if Qd.shape[0] != n or Td.shape != (cols, cols):
        out.fail(sub, site, "shape", f"Q {Qd.shape} T {Td.shape}")
        return cols
    if cols > min(max_iters, n):
        out.fail(sub, site, "too_many_columns", f"{cols} > min(max_iters={max_iters}, n={n})")
    if cols == 0:
        out.fail(sub, site, "no_columns", "")
        return cols
    e = np.abs(Qd.conj().T @ Qd - np.eye(cols)).max()
    if e > 1e-10:  # every returned column is normalised and twice re-orthogonalised: independent of tol
        out.fail(sub, site, "not_orthonormal", f"|Q^H Q - I| = {e:.3e} (cols={cols}, n={n})")
    e = np.abs(Qd[:, 0] - v / np.linalg.norm(v)).max()
    if e > 1e-10:
        out.fail(sub, site, "first_column", f"|q1 - v/|v|| = {e:.3e}")
    if np.abs(Td.imag).max(initial=0) > rel * scale if np.iscomplexobj(Td) else False:
        out.fail(sub, site, "T_not_real", f"max imag {np.abs(Td.imag).max():.3e}")
    Tr = Td.real if np.iscomplexobj(Td) else Td
    if np.abs(Tr - Tr.T).max(initial=0) > 1e-12 * scale:
        out.fail(sub, site, "T_not_symmetric", "")
    if np.abs(np.triu(Tr, 2)).max(initial=0) > 0 or np.abs(np.tril(Tr, -2)).max(initial=0) > 0:
        out.fail(sub, site, "T_not_tridiagonal", "")
    if cols > 1 and np.min(np.diag(Tr, 1)) < -rel * scale:
        out.fail(sub, site, "negative_offdiagonal", f"{np.min(np.diag(Tr, 1)):.3e}")
    P = Qd.conj().T @ M @ Qd
    e = np.abs(P - Td).max()
    if e > 1e3 * rel * scale:
        out.fail(sub, site, "T_not_projection", f"|Q^H M Q - T| = {e:.3e} (cols={cols}, n={n}, max_iters={max_iters})")
    Rm = M @ Qd - Qd @ Td
    e = np.abs(Rm[:, :-1]).max(initial=0)
    if e > 1e3 * rel * scale:
        out.fail(sub, site, "relation", f"|M Q - Q T| outside the last column = {e:.3e}")
    # Krylov spans
    for j in range(1, min(cols, span_upto) + 1):
        K = KR.krylov_basis(lambda q: M @ q, v, j)
        if K.shape[1] < j:
            break
        res = K - Qd[:, :j] @ (Qd[:, :j].conj().T @ K)
        if np.abs(res).max() > 1e4 * rel * max(1.0, np.linalg.cond(M) if j > 4 else 1.0):
            out.fail(sub, site, "wrong_span", f"first {j} columns do not span K_{j}: residual {np.abs(res).max():.3e}")
            break
    return cols


def check(case, out):
    import cola
    from cola.linalg.decompositions.lanczos import lanczos, lanczos_eigs
    sub = case["sub"]
    A, M, vs = build(case)
    n = case["n"]
    tol = 10.0 ** case["tol_exp"]
    if case.get("tol_zero") and case["start"] == "generic" and case["spec"] in ("simple", "indefinite") and case["op"] in ("dense", "kron"):
        tol = 0.0
        out.label("tol:0")
    mi = case["max_iters"]
    scale = max(1.0, np.abs(M).max())
    out.label("sub:" + sub, "op:" + case["op"], "spec:" + case["spec"], "start:" + case["start"], "complex" if np.iscomplexobj(M) else "real",
              "max_iters:" + ("<n" if mi < n else "=n" if mi == n else ">n"))
    site = f"lanczos:{case['op']}:{case['start']}"
    if np.linalg.norm(M @ vs[0]) <= 1e-12 * max(1.0, np.abs(M).max()) * np.linalg.norm(vs[0]) and case["op"] != "diag":
        site += ":nullstart"
    v = vs[0]
    # grade and its borderline band
    Kfull = KR.krylov_basis(lambda q: M @ q, v, n + 1, tol=1e-11)
    g = Kfull.shape[1]
    g_loose = KR.krylov_basis(lambda q: M @ q, v, n + 1, tol=max(1e-5, 100 * tol)).shape[1]
    borderline = g != g_loose  # a numerically fuzzy breakdown: nothing is demanded about where the iteration stops
    if borderline:
        out.label("borderline_grade")
    out.nontrivial = mi < g or g < n or case["spec"] in ("repeated", "clustered") or np.iscomplexobj(M) or sub == "batched" or case["op"] != "dense"

    def call(fn):
        try:
            return fn()
        except Exception as e:
            out.fail(sub, site, oracle.exc_man(e), e)
            return None

    if sub == "alg_object":
        # the public algorithm object Lanczos(max_iters, tol, key)(A) with its default (keyed) start vector, after the same
        # object has been applied to a smaller operator: the factorisation predicates hold with v := the start it drew
        L = cola.linalg
        explicit = case["seed"] % 2 == 0  # an explicit start vector held by the object (real, or complex for a real operator)
        if explicit:
            out.label("alg_object:start_vector")
            algo = L.Lanczos(start_vector=v.copy(), max_iters=mi, tol=max(tol, 1e-12))
        else:
            algo = L.Lanczos(max_iters=mi, tol=max(tol, 1e-12), key=case["seed"] % 1000 + 1)
            if n >= 3:
                call(lambda: algo(cola.SelfAdjoint(cola.ops.Dense(np.diag(np.arange(1.0, n - 1.0)) + 0.5 * np.ones((n - 2, n - 2))))))
        res = call(lambda: algo(A))
        if res is None:
            return
        Q, T, info = res
        Qd = np.asarray(Q.to_dense())
        if Qd.shape[1] == 0:
            out.fail(sub, site, "no_columns", "")
            return
        cols = verify(out, sub, site, M, v if explicit else Qd[:, 0].copy(), Q, T, mi, max(tol, 1e-12), span_upto=2 if case["spec"] == "clustered" else 6)
        gq = KR.krylov_basis(lambda q: M @ q, Qd[:, 0], n + 1, tol=max(1e-5, 100 * tol)).shape[1]
        if not out.failures and case["spec"] in ("simple", "indefinite") and case["op"] == "dense" and cols < min(mi, gq):
            out.fail(sub, site, "too_few_columns", f"{cols} columns although min(max_iters={mi}, Krylov dimension {gq}) are due (n={n})")
        return

    if sub == "factorisation":
        if case.get("pbar"):  # the progress-bar option runs the same iteration through another loop wrapper
            out.label("pbar")

            def with_bar():
                with oracle.quiet():
                    return lanczos(A, v.copy(), max_iters=mi, tol=tol, pbar=True)
            res = call(with_bar)
        else:
            res = call(lambda: lanczos(A, v.copy(), max_iters=mi, tol=tol))
        if res is None:
            return
        Q, T, info = res
        if case.get("then_another"):
            # the returned Q and T are values: a later factorisation (same operator, same size and cap, another start
            # vector) and a Ritz computation must leave them as they are
            out.label("then_another_call")
            v2 = (np.roll(v, 1) * 1.5 + 0.25).astype(v.dtype)
            call(lambda: lanczos(A, v2.copy(), max_iters=mi, tol=tol))
            call(lambda: lanczos_eigs(A, v2.copy(), max_iters=mi, tol=tol))
            if out.failures:
                return
        # with two clusters of width 1e-6 the Krylov vectors beyond the second are determined only to ~1e-6/eps:
        # the span predicate is then restricted to j <= 2 (orthonormality, projection and relation are still judged)
        cols = verify(out, sub, site, M, v, Q, T, mi, tol, span_upto=2 if case["spec"] == "clustered" else min(8, g_loose))
        if out.failures:
            return
        clustered = case["spec"] == "clustered"
        if borderline:
            out.inconclusive += 1
            return
        if mi >= g and g < n and tol >= 1e-10 and not clustered:
            if cols != g:
                out.fail(sub, site, "no_early_termination" if cols > g else "stopped_too_early", f"cols={cols} but Krylov space has dimension g={g} (max_iters={mi}, tol={tol:g})")
            else:
                out.label("early_termination")
        if cols == g and g <= mi:
            # eigenvalues of T are then exact eigenvalues of M
            th = np.linalg.eigvalsh(dense_T(T).real if not np.iscomplexobj(dense_T(T)) else (dense_T(T) + dense_T(T).conj().T) / 2)
            w = np.linalg.eigvalsh(M)
            d = np.array([np.min(np.abs(w - t)) for t in th])
            if np.max(d) > 1e4 * max(1e-10, 10 * tol) * scale:
                out.fail(sub, site, "ritz_not_eigen", f"max distance of eig(T) to eig(M): {np.max(d):.3e}")
        return

    if sub == "eigs":
        res = call(lambda: lanczos_eigs(A, v.copy(), max_iters=mi, tol=tol))
        if res is None:
            return
        th, V, info = res
        th = np.asarray(th)
        Vd = np.asarray(V.to_dense())
        if not (np.all(np.isfinite(th)) and np.all(np.isfinite(Vd))):
            out.fail(sub, site, "nonfinite", "")
            return
        if np.any(np.diff(th.real) < -1e-10 * scale):
            out.fail(sub, site, "not_ascending", str(th[:6]))
        # "the corresponding Ritz pairs": as many as lanczos itself returns columns for the same arguments
        ref = call(lambda: lanczos(A, v.copy(), max_iters=mi, tol=tol))
        if ref is not None and np.asarray(ref[0].to_dense()).shape[1] != th.shape[0]:
            out.fail(sub, site, "ritz_count", f"{th.shape[0]} Ritz pairs, lanczos with the same max_iters={mi} and tol={tol:g} returns {np.asarray(ref[0].to_dense()).shape[1]} columns")
        # Ritz pairs: theta_i = v_i^H M v_i and residual orthogonal to the Krylov space: V^H (M V - V diag(theta)) = 0
        k = Vd.shape[1]
        G = Vd.conj().T @ (M @ Vd) - np.diag(th)
        if np.abs(G).max(initial=0) > 1e4 * max(1e-10, 10 * tol) * scale:
            out.fail(sub, site, "not_ritz", f"|V^H M V - diag(theta)| = {np.abs(G).max():.3e} (k={k})")
        if not borderline and mi >= g and (g == n or (tol >= 1e-10 and case["spec"] != "clustered")) and k == g:
            w = np.linalg.eigvalsh(M)
            d = np.array([np.min(np.abs(w - t)) for t in th.real])
            if np.max(d) > 1e4 * max(1e-10, 10 * tol) * scale:
                out.fail(sub, site, "ritz_not_eigen", f"{np.max(d):.3e}")
        return

    if sub == "batched":
        Vb = np.stack(vs, axis=1)
        res = call(lambda: lanczos(A, Vb.copy(), max_iters=mi, tol=tol))
        if res is None:
            return
        Qb, Tb, info = res
        try:  # batched results are densified member-wise, the way cola itself does it
            xnp = A.xnp
            Qd = np.asarray(xnp.vmap(Qb.__class__.to_dense)(Qb))
            Td = np.asarray(xnp.vmap(Tb.__class__.to_dense)(Tb))
        except Exception as e:
            out.fail(sub, site, "batched_to_dense:" + oracle.exc_man(e), e)
            return
        grades = [KR.krylov_basis(lambda q: M @ q, vv, n + 1, tol=max(1e-5, 100 * tol)).shape[1] for vv in vs]
        if min(grades) <= mi or case["spec"] == "clustered":
            out.label("batched:some_terminate_early" if min(grades) <= mi else "batched:clustered_skipped")
            # per-column agreement is only demanded when nothing terminates early (and the basis is well determined);
            # the batched members must still be finite
            if not (np.all(np.isfinite(Qd)) and np.all(np.isfinite(Td))):
                out.fail(sub, site, "nonfinite", "batched Q/T contain non-finite entries")
                return
            # every member is its own factorisation: its columns are unit vectors or zero padding (a member that is
            # exhausted while others continue), the non-zero ones orthonormal, and T = Q^H M Q on them
            for j in range(len(vs)):
                nrm = np.linalg.norm(Qd[j], axis=0)
                nz = nrm > 0
                if np.any(np.abs(nrm[nz] - 1) > 1e-8):
                    out.fail(sub, site, "batched_column_norm", f"member {j}: column norms {nrm[nz][np.abs(nrm[nz] - 1) > 1e-8][:4]}")
                    return
                Qn = Qd[j][:, nz]
                e = np.abs(Qn.conj().T @ Qn - np.eye(Qn.shape[1])).max(initial=0)
                if e > 1e-8:
                    out.fail(sub, site, "batched_not_orthonormal", f"member {j} (grade {grades[j]}, {int(nz.sum())} non-zero columns): |Q^H Q - I| = {e:.3e}")
                    return
                k = int(nz.sum())
                # the stopping test of a member is relative to its own first off-diagonal entry: where the member's own
                # (reference) Lanczos coefficients stay above 10 tol of that scale, it must not have been stopped
                Vj = KR.krylov_basis(lambda q: M @ q, vs[j], min(mi, n) + 1, tol=1e-11)
                Tj = Vj.conj().T @ M @ Vj
                subd = np.abs(np.diag(Tj, -1))
                due = min(mi, Vj.shape[1])
                ref0 = max(subd[0] if subd.size else 0.0, abs(Tj[0, 0]))
                if subd.size and due >= 2 and np.min(subd[:due - 1]) > 10 * max(tol, 1e-12) * ref0 and k < due:
                    out.fail(sub, site, "batched_stopped_early", f"member {j}: {k} non-zero columns, {due} are due (its own coefficients {subd[:due - 1].min():.2e} vs scale {ref0:.2e}, tol={tol:g})")
                    return
                if np.all(nz[:k]) and k >= 1:
                    P = Qn.conj().T @ M @ Qn
                    e = np.abs(P - Td[j][:k, :k]).max()
                    if e > 1e3 * max(1e-10, 10 * tol) * scale:
                        out.fail(sub, site, "batched_T_not_projection", f"member {j}: |Q^H M Q - T| = {e:.3e} over its {k} non-zero columns")
                        return
            return
        for j, vv in enumerate(vs):
            Qj, Tj, _ = lanczos(A, vv.copy(), max_iters=mi, tol=tol)
            qd, td = np.asarray(Qj.to_dense()), np.asarray(Tj.to_dense())
            if Qd[j].shape != qd.shape or Td[j].shape != td.shape:
                out.fail(sub, site, "batched_shape", f"{Qd[j].shape} vs {qd.shape}")
                return
            # later Lanczos vectors are exponentially sensitive to rounding: compare the leading 8 columns only
            h = min(8, qd.shape[1])
            if np.abs(Qd[j][:, :h] - qd[:, :h]).max() > 1e-8 or np.abs(Td[j][:h, :h] - td[:h, :h]).max() > 1e-8 * scale:
                out.fail(sub, site, "batched_differs", f"col {j}: |dQ|={np.abs(Qd[j] - qd).max():.3e} |dT|={np.abs(Td[j] - td).max():.3e}")
                return
