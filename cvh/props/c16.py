"""C16 - svd and pinv return a valid singular value decomposition and the pseudo-inverse."""
import numpy as np
from hypothesis import strategies as st

from cvh import krylov_ref as KR, oracle

ID = "C16"
LEVEL = "exploration"
BUDGET = {"quick": 8000, "thorough": 100000}
WALL = {"quick": 240, "thorough": 2700}
MIN_CASES = {"quick": 800, "thorough": 8000}
RULE = ("Hypothesis draws an m x n operator with m<n, m=n, m>n (1..12; real/complex; singular values separated by >= 15%; "
        "Dense plus the kinds with structural rules: Identity, Diagonal incl. negative/complex entries, ScalarMul, "
        "Permutation), 1 <= k <= min(m,n), algorithm in {omitted, Auto, DenseSVD, Lanczos(max_iters >= min(m,n))} for svd and "
        "{omitted, Auto, LSTSQ, CG(tol)} for pinv with 1-D / 2-D right-hand sides. Oracle: U^H U = I, V^H V = I, Sigma "
        "diagonal and >= 0; U Sigma V^H = M when all triplets are returned; with a Krylov algorithm and k triplets, U Sigma "
        "V^H equals the best rank-k approximation from numpy.linalg.svd (dense algorithms may return all triplets). pinv: x = "
        "pinv(A) @ b satisfies M^H (M x - b) = 0, x is orthogonal to null(M), and x equals numpy.linalg.pinv(M) @ b. "
        "Non-trivial: non-square, k < min(m,n), complex, or the CG path. Further kinds: Hermitian indefinite operators "
        "declared SelfAdjoint and PD operators declared PSD (singular values |lambda|), lazy Products of 2-3 full-rank dense "
        "factors in every orientation pattern (wide@tall, tall@square, square@wide, tall@tall, ...) and Sums."
        " Further: c * Stiefel / Unitary-declared Q with |c| != 1 (pinv), singular values spread over 1e3 / 5e3 at"
        " Lanczos' default tolerance, columns graded over four decades (pinv), the same Auto object (or the default)"
        " first used on a 2 x 500001 operator in the large case."
        " Round 5: aspect ratios 8..10 (2 x 16 .. 4 x 40 and transposed), Kronecker products of two dense factors.")
ASSUMPTIONS = [
    "full-rank operators with cond <= ~1e2; tolerances 1e-7 |M| (svd) and 1e-6 |x| cond (pinv; 10 tol cond^2 for CG)",
    "bulk payloads from numpy.default_rng(seed) with the seed a Hypothesis draw",
]
SVD_ALGS = ["omitted", "Auto", "DenseSVD", "Lanczos"]
PINV_ALGS = ["omitted", "Auto", "LSTSQ", "CG"]


@st.composite
def cases(draw, tier):
    if draw(st.integers(1, 400 if tier == "quick" else 200)) == 1:
        return {"fn": draw(st.sampled_from(["svd", "pinv"])), "kind": "large", "m": 1001, "n": 1001, "cplx": False, "seed": draw(st.integers(0, 10**5)),
                "k": draw(st.integers(1, 3)), "alg": draw(st.sampled_from(["Auto(kw)", "Auto(kw)", "omitted"])), "ncol": 0, "tol_exp": -8, "bdt": "same",
                "warm_wide": draw(st.booleans())}  # the same algorithm object (or the default) first decomposes a 2 x 500001 operator
    fn = draw(st.sampled_from(["svd", "svd", "pinv"]))
    kind = draw(st.sampled_from(["dense", "dense", "dense", "eye", "diag", "smul", "perm", "herm", "psd_ann", "prod", "prod", "sum",
                                 "dense_spread", "scaled_stiefel", "scaled_stiefel", "graded_cols", "very_wide", "kron"]))
    lim = 8 if tier == "quick" else 12
    m, n = draw(st.integers(1, lim)), draw(st.integers(1, lim))
    if kind == "very_wide":
        # one side at least eight times the other (2 x 16 ... 4 x 40), wide or tall
        m = draw(st.integers(2, 4))
        n = m * draw(st.integers(8, 10))
        if draw(st.booleans()):
            m, n = n, m
        kind = "dense"
    elif kind == "kron":
        m, n = draw(st.sampled_from([4, 6, 9])), draw(st.sampled_from([4, 6]))
    if kind == "scaled_stiefel":
        m, n = max(m, n), min(m, n)  # tall (or square): orthonormal columns times a scalar
    elif kind not in ("dense", "prod", "sum", "dense_spread", "graded_cols", "kron"):
        n = m
    if kind == "graded_cols" and fn == "svd":
        kind = "dense"
    if kind in ("smul", "perm", "scaled_stiefel") and fn == "svd":
        kind = "diag"  # (all singular values equal: outside the well-separated domain of the svd half)
    case = {"fn": fn, "kind": kind, "m": m, "n": n, "cplx": draw(st.booleans()), "seed": draw(st.integers(0, 10**6)),
            "k": draw(st.integers(1, min(m, n))), "alg": draw(st.sampled_from(SVD_ALGS if fn == "svd" else PINV_ALGS)),
            "ncol": draw(st.sampled_from([0, 0, 2])), "tol_exp": draw(st.sampled_from([-10, -8, -6])),
            "bdt": draw(st.sampled_from(["same", "same", "complex", "f32op"])),
            # inner dimensions of a lazy product (each factor full rank; the chain keeps the product full rank)
            "inner": draw(st.sampled_from(["max", "max", "min", "mid"])), "nfac": draw(st.integers(2, 3)),
            # round 6: the operator given in other units (payload times 10^pscale): pinv scales with the inverse factor
            "pscale": draw(st.sampled_from([0, 0, 0, -8, -7, -6, -3, 4, 6]))}
    return case


def strategy(tier):
    return cases(tier)


def build(case):
    import cola
    ops = cola.ops
    m, n, seed, cplx = case["m"], case["n"], case["seed"], case["cplx"]
    rng = np.random.default_rng(seed)
    kind = case["kind"]
    r = min(m, n)
    if kind == "dense":
        s = 1.0 * 1.2 ** (np.arange(r) + 0.3 * rng.random(r))
        rng.shuffle(s)
        U = KR.rand_unitary(m, seed, cplx)[:, :r]
        V = KR.rand_unitary(n, seed + 1, cplx)[:, :r]
        M = (U * s) @ V.conj().T
        return ops.Dense(M), M
    if kind in ("herm", "psd_ann"):
        # Hermitian with singular values |lam| separated by >= 15%; 'herm' is indefinite (signs drawn) and declared
        # SelfAdjoint, 'psd_ann' positive definite and declared PSD
        lam = 1.0 * 1.2 ** (np.arange(m) + 0.3 * rng.random(m))
        if kind == "herm":
            lam = lam * np.where(rng.random(m) < 0.5, -1, 1)
        rng.shuffle(lam)
        Q = KR.rand_unitary(m, seed, cplx)
        M = (Q * lam) @ Q.conj().T
        M = (M + M.conj().T) / 2
        return (cola.SelfAdjoint if kind == "herm" else cola.PSD)(ops.Dense(M)), M
    if kind == "prod":
        # lazy product of 2-3 full-rank dense factors whose product has full rank min(m, n): inner dimensions are
        # >= max(m,n) ('max': e.g. wide @ tall), = min(m,n) ('min': e.g. tall @ square, square @ wide) or in between
        lo, hi = min(m, n), max(m, n)
        inner = {"max": hi + int(rng.integers(0, 3)), "min": lo, "mid": int(rng.integers(lo, hi + 1))}[case.get("inner", "max")]
        dims = [m] + [inner] * (case.get("nfac", 2) - 1) + [n]
        Fs = []
        for i in range(len(dims) - 1):
            a, b = dims[i], dims[i + 1]
            rr = min(a, b)
            sv = 1.0 + rng.random(rr)
            Fs.append((KR.rand_unitary(a, seed + 10 * i, cplx)[:, :rr] * sv) @ KR.rand_unitary(b, seed + 10 * i + 1, cplx)[:, :rr].conj().T)
        M = Fs[0]
        for F in Fs[1:]:
            M = M @ F
        if np.linalg.matrix_rank(M) == min(m, n) and np.linalg.cond(M) < 1e3:
            return ops.Product(*[ops.Dense(F) for F in Fs]), M
        kind = "dense"
    if kind == "scaled_stiefel":
        # c Q with Q^H Q = I declared Stiefel (Unitary when square) and |c| != 1: pinv(c Q) = Q^H / c
        Q = KR.rand_unitary(m, seed, cplx)[:, :n]
        c = [3.0, 0.25, -2.0, 0.5][seed % 4] * (np.exp(0.7j) if cplx and seed % 3 == 0 else 1.0)
        Qop = (cola.Unitary if m == n and seed % 2 else cola.Stiefel)(ops.Dense(Q))
        return (c * Qop if seed % 5 else Qop / (1.0 / c)), c * Q
    if kind == "kron":
        # Kronecker product of two dense factors with well separated singular values (products of the factors')
        def fac(a, b, sd, base):
            rr = min(a, b)
            return (KR.rand_unitary(a, sd, cplx)[:, :rr] * (base ** np.arange(rr))) @ KR.rand_unitary(b, sd + 1, cplx)[:, :rr].conj().T
        a1 = [d for d in (2, 3) if m % d == 0][0]
        b1 = [d for d in (2, 3) if n % d == 0][0]
        F1, F2 = fac(a1, b1, seed, 1.7), fac(m // a1, n // b1, seed + 5, 1.31)
        return ops.Kronecker(ops.Dense(F1), ops.Dense(F2)), np.kron(F1, F2)
    if kind == "graded_cols":
        # well-conditioned core with columns rescaled over four decades (badly scaled unknowns); wide, square or tall
        s = 1.0 * 1.2 ** (np.arange(r) + 0.3 * rng.random(r))
        M0 = (KR.rand_unitary(m, seed, cplx)[:, :r] * s) @ KR.rand_unitary(n, seed + 1, cplx)[:, :r].conj().T
        M = M0 * (10.0 ** rng.integers(-2, 3, size=n))[None, :]
        return ops.Dense(M), M
    if kind == "dense_spread":
        # singular values spread geometrically over 1e3 / 5e3 (squared by the Gram matrices of the Krylov algorithm)
        sp = [1e3, 5e3][seed % 2]
        s = sp ** (np.arange(r) / max(r - 1, 1))
        M = (KR.rand_unitary(m, seed, cplx)[:, :r] * s) @ KR.rand_unitary(n, seed + 1, cplx)[:, :r].conj().T
        return ops.Dense(M), M
    if kind == "sum":
        s = 1.0 * 1.2 ** (np.arange(r) + 0.3 * rng.random(r))
        rng.shuffle(s)
        M = (KR.rand_unitary(m, seed, cplx)[:, :r] * s) @ KR.rand_unitary(n, seed + 1, cplx)[:, :r].conj().T
        E = rng.standard_normal((m, n)) + (1j * rng.standard_normal((m, n)) if cplx else 0)
        return ops.Sum(ops.Dense(M - E), ops.Dense(E)), M
    if kind == "dense":
        s = 1.0 * 1.2 ** (np.arange(r) + 0.3 * rng.random(r))
        rng.shuffle(s)
        U = KR.rand_unitary(m, seed, cplx)[:, :r]
        V = KR.rand_unitary(n, seed + 1, cplx)[:, :r]
        M = (U * s) @ V.conj().T
        return ops.Dense(M), M
    if kind == "eye":
        return ops.Identity((m, m), np.float64), np.eye(m)
    if kind == "diag":
        d = (1.0 * 1.2 ** (np.arange(m) + 0.3 * rng.random(m))) * np.where(rng.random(m) < 0.5, -1, 1)
        rng.shuffle(d)
        if cplx:
            d = d * np.exp(1j * rng.uniform(-np.pi, np.pi, m))
        return ops.Diagonal(d.copy()), np.diag(d)
    if kind == "smul":
        c = -2.5 if seed % 2 else 0.5
        return ops.ScalarMul(c, (m, m), dtype=np.float64), c * np.eye(m)
    p = rng.permutation(m)
    P = np.zeros((m, m))
    P[np.arange(m), p] = 1
    return ops.Permutation(p, dtype=np.float64), P


def check_large(case, out):
    """the large (> 1e6 entries) branch of the Auto rules: matrix-free 1001 x 1001 operator 2 I + U diag(s) V^T"""
    import cola
    from cola.linalg.svd.svd import svd
    L = cola.linalg
    n, seed, k = 1001, case["seed"], case["k"]
    rng = np.random.default_rng(seed)
    r = 4
    U, _ = np.linalg.qr(rng.standard_normal((n, r)))
    V = U @ np.diag([1.0, -1.0, 1.0, -1.0])  # same range with sign flips: singular values 2 +- s_i, condition number ~ 20
    s = np.array([40.0, 25.0, 15.0, 9.0])
    M = 2.0 * np.eye(n) + (U * s) @ V.T
    A = cola.ops.LinearOperator(np.float64, (n, n), matmat=lambda X: 2.0 * X + U @ (s[:, None] * (V.T @ X)))
    out.label("fn:" + case["fn"], "kind:large", "alg:" + case["alg"])
    out.nontrivial = True
    site = f"{case['fn']}:large:{case['alg']}"
    alg = [] if case["alg"] == "omitted" else [L.Auto(max_iters=60, tol=1e-10)]
    try:
        if case["fn"] == "svd":
            if case.get("warm_wide"):
                W = cola.ops.Dense(np.random.default_rng(seed + 1).standard_normal((2, 500001)))
                svd(W, 1, "LM", *alg) if alg else svd(W, 1)
                out.label("alg_object_reused")
            Uo, So, Vo = svd(A, k, "LM", *alg) if alg else svd(A, k)
            Ud, Sd, Vd = np.asarray(Uo.to_dense()), np.asarray(So.to_dense()), np.asarray(Vo.to_dense())
            Uf, sf, Vhf = np.linalg.svd(M)
            best = (Uf[:, :k] * sf[:k]) @ Vhf[:k]
            if Sd.shape != (k, k):
                out.fail("factors", site, "count", f"Sigma {Sd.shape} for k={k}")
                return
            err = np.abs(Ud @ Sd @ Vd.conj().T - best).max()
            if not np.isfinite(err) or err > 1e-5 * sf[0]:
                out.fail("reconstruct", site, "value", f"|U S V^H - best rank-{k}| = {err:.3e}")
        else:
            b = rng.standard_normal(n)
            x = np.asarray(L.pinv(A, *alg) @ b)
            xref = np.linalg.solve(M, b)
            if not np.all(np.isfinite(x)) or np.linalg.norm(x - xref) > 1e-4 * np.linalg.norm(xref):
                out.fail("value", site, "not_min_norm_lstsq", f"|x - x_ref|/|x_ref| = {np.linalg.norm(x - xref) / np.linalg.norm(xref):.3e}")
    except Exception as e:
        if oracle.is_contract_refusal(e):
            out.refusals += 1
            return
        out.fail("call", site, oracle.exc_man(e), e)


def check(case, out):
    import cola
    from cola.linalg.svd.svd import DenseSVD, svd
    from cola.linalg.inverse.pinv import LSTSQ
    L = cola.linalg
    fn = case["fn"]
    if case["kind"] == "large":
        return check_large(case, out)
    A, M = build(case)
    m, n = M.shape
    r = min(m, n)
    k = case["k"]
    scale = max(1.0, np.linalg.norm(M, 2))
    out.label("fn:" + fn, "kind:" + case["kind"], "alg:" + case["alg"], "shape:" + ("wide" if m < n else "tall" if m > n else "square"),
              "complex" if np.iscomplexobj(M) else "real", "k:" + ("all" if k == r else "part"))
    site = f"{fn}:{type(A).__name__.split(chr(91))[0]}:{case['alg']}:{'wide' if m < n else 'tall' if m > n else 'square'}"
    out.nontrivial = m != n or (fn == "svd" and k < r) or np.iscomplexobj(M) or case["alg"] == "CG"

    if fn == "svd":
        lt = 1e-6 if case["kind"] == "dense_spread" else 1e-12  # (1e-6 is the default tolerance of Lanczos)
        alg = {"omitted": None, "Auto": L.Auto(), "DenseSVD": DenseSVD(), "Lanczos": L.Lanczos(max_iters=r + 2, tol=lt)}[case["alg"]]
        try:
            U, S, V = svd(A, k, "LM", *([alg] if alg is not None else []))
            Ud, Sd, Vd = np.asarray(U.to_dense()), np.asarray(S.to_dense()), np.asarray(V.to_dense())
        except Exception as e:
            if oracle.is_contract_refusal(e):
                out.refusals += 1
                return
            out.fail("call", site, oracle.exc_man(e), e)
            return
        if not all(np.all(np.isfinite(x)) for x in (Ud, Sd, Vd)):
            out.fail("factors", site, "nonfinite", "")
            return
        kk = Sd.shape[0]
        if Ud.shape != (m, kk) or Vd.shape != (n, kk) or Sd.shape != (kk, kk):
            out.fail("factors", site, "shape", f"U {Ud.shape} S {Sd.shape} V {Vd.shape} for a {m} x {n} operator, k={k}")
            return
        if np.abs(Ud.conj().T @ Ud - np.eye(kk)).max() > 1e-7:
            out.fail("factors", site, "U_not_orthonormal", f"{np.abs(Ud.conj().T @ Ud - np.eye(kk)).max():.3e}")
        if np.abs(Vd.conj().T @ Vd - np.eye(kk)).max() > 1e-7:
            out.fail("factors", site, "V_not_orthonormal", f"{np.abs(Vd.conj().T @ Vd - np.eye(kk)).max():.3e}")
        off = Sd - np.diag(np.diag(Sd))
        sv = np.diag(Sd)
        if np.abs(off).max(initial=0) > 0 or np.abs(np.imag(sv)).max(initial=0) > 1e-12 * scale or np.min(np.real(sv)) < -1e-12 * scale:
            out.fail("factors", site, "sigma_not_nonnegative_diagonal", f"diag(Sigma) = {sv[:5]}")
        rec = Ud @ Sd @ Vd.conj().T
        Uf, sf, Vhf = np.linalg.svd(M)
        best = lambda j: (Uf[:, :j] * sf[:j]) @ Vhf[:j]  # noqa: E731
        krylov = case["alg"] == "Lanczos"
        if krylov and case["kind"] == "dense_spread" and k <= kk < r or (krylov and case["kind"] == "dense_spread" and kk < k and sf[kk] <= 1e-2 * sf[0]):
            # (at Lanczos' default tolerance the iteration may stop before the smallest of singular values spread over
            # 5e3 are resolved: the triplets that are returned are then judged against the best rank-kk approximation)
            if kk < k:
                out.inconclusive += 1
                out.label("svd:early_termination")
            target, what = best(kk), f"the best rank-{kk} approximation"
        elif kk == r:
            target, what = M, "M"
        elif kk == k:
            if sf[k - 1] - sf[k] < 0.05 * sf[0]:  # (near-)equal singular values at the cut: the best rank-k approximation is not unique
                out.inconclusive += 1
                out.label("svd:no_gap_at_k")
                return
            target, what = best(k), f"the best rank-{k} approximation"
        else:
            out.fail("factors", site, "count", f"{kk} triplets returned for k={k}, min(m,n)={r}")
            return
        if krylov and kk != k and case["kind"] in ("dense", "herm", "psd_ann", "prod", "sum", "kron"):  # structural rules may return their full exact decomposition
            out.fail("factors", site, "count", f"Krylov algorithm returned {kk} triplets for k={k}")
            return
        err = np.abs(rec - target).max()
        if krylov and case["kind"] == "dense_spread" and kk < k:
            # stopped by its tolerance: the unresolved end of the spectrum is within sqrt(tol) |A| (the Gram matrix squares it)
            if err > 1e-3 * scale:
                out.fail("reconstruct", site, "value", f"|U S V^H - {what}| = {err:.3e} after early termination")
            return
        if err > 1e-7 * scale * (100 if krylov else 1):
            out.fail("reconstruct", site, "value", f"|U S V^H - {what}| = {err:.3e}")
        return

    # pinv
    tol = 10.0 ** case["tol_exp"]
    alg = {"omitted": None, "Auto": L.Auto(), "LSTSQ": LSTSQ(), "CG": L.CG(tol=tol, max_iters=50 * max(m, n) + 50)}[case["alg"]]
    rng = np.random.default_rng(case["seed"] + 3)
    shape = (m, ) if case["ncol"] == 0 else (m, case["ncol"])
    b = rng.standard_normal(shape) + (1j * rng.standard_normal(shape) if np.iscomplexobj(M) else 0)
    bdt = case.get("bdt", "same")
    if bdt == "complex" and not np.iscomplexobj(M):  # complex right-hand side for a real operator
        b = b + 1j * rng.standard_normal(shape)
        out.label("rhs:complex_for_real_operator")
    if bdt == "f32op" and type(A).__name__ == "Dense" and not A.annotations and not np.iscomplexobj(M) and case["alg"] != "CG":
        # float32 operator, float64 right-hand side: the solve has to run in the promoted (double) precision
        M = M.astype(np.float32).astype(np.float64)
        A = cola.ops.Dense(M.astype(np.float32))
        out.label("rhs:f64_for_f32_operator")
    if case.get("pscale") and type(A).__name__ == "Dense" and not A.annotations and "rhs:f64_for_f32_operator" not in out.labels:
        M = M * 10.0 ** case["pscale"]
        A = cola.ops.Dense(M.copy())
        out.label("pscale:%d" % case["pscale"])
    try:
        x = np.asarray(L.pinv(A, *([alg] if alg is not None else [])) @ b)
    except Exception as e:
        if oracle.is_contract_refusal(e):
            out.refusals += 1
            return
        out.fail("call", site, oracle.exc_man(e), e)
        return
    xref = np.linalg.pinv(M) @ b
    cond = np.linalg.cond(M)
    if x.shape != xref.shape:
        out.fail("value", site, "shape", f"{x.shape} expected {xref.shape}")
        return
    if not np.all(np.isfinite(x)):
        out.fail("value", site, "nonfinite", "")
        return
    t = (1e-6 if case["alg"] != "CG" else max(1e-6, 100 * tol * cond)) * cond * max(np.linalg.norm(xref), 1e-300) + 1e-12
    if np.linalg.norm(x - xref) > t:
        g = np.linalg.norm(M.conj().T @ (M @ x - b))
        out.fail("value", site, "not_min_norm_lstsq", f"|x - pinv(M) b| = {np.linalg.norm(x - xref):.3e} > {t:.3e}; normal-equation residual {g:.3e}")
