"""C04 - rule selection is total and unambiguous for all kind / annotation / algorithm combinations.

Deterministic part: complete enumeration of the finite lattice
  function x kind (or ordered pair of kinds) x annotation x algorithm object x omitted/explicit optional args
on one tiny positive-definite instance per kind; every tuple is EXECUTED so nested dispatches resolve too.
Generated part (Hypothesis): the same calls on random nested operator trees (parametric types such as
Product[Dense, Diagonal] take part in resolution), random annotation and algorithm."""
import itertools
import multiprocessing as mp
import os

import numpy as np
from hypothesis import strategies as st

from cvh import gen, ir as IR, oracle, treeprop as TP

ID = "C04"
LEVEL = "exploration"
BUDGET = {"quick": 6000, "thorough": 120000}
WALL = {"quick": 200, "thorough": 2400}
MIN_CASES = {"quick": 500, "thorough": 5000}
RULE = ("Exhaustive: every tuple (function in {@,+,*,T,H,kron,kronsum,inv,solve,pinv,slogdet,logdet,diag,trace,exp,log,sqrt,"
        "isqrt,pow,apply_unary,eig,eigmax,eigmin,svd,cholesky,plu}, operator kind or ordered pair of kinds incl. every class "
        "named in a signature of the live plum registry, annotation in {none,SelfAdjoint,PSD,Stiefel,Unitary}, algorithm "
        "class admitted by the function, omitted vs explicit optional arguments) is executed on a tiny PD instance; a "
        "violation is an AmbiguousLookupError/NotFoundLookupError raised anywhere in the call; any other exception is "
        "outside the property and only tallied; 68 further tuples execute the LARGE branch of every Auto rule on matrix-free "
        "1001 x 1001 operators. Generated: the same calls on Hypothesis-drawn nested trees. Non-trivial: "
        "a tuple for which more than one registered signature of the called function matches the arguments."
        " Further: NumPy-scalar exponents (float32, int64, int32, float64) for pow."
        " Round 5: operators of exactly 10^6 entries for every Auto rule; the optional modules (preconditioners, svd,"
        " slq, randomized_svd) are imported before the lattice runs.")
ASSUMPTIONS = [
    "only lookup errors are judged; errors raised by the selected rule (CG/Cholesky refusing non-PSD, shape asserts, numerical failures) are tallied by bucket, never alarms",
    "annotations are attached with the public wrappers and may be false of the tiny instance (only dispatch is observed)",
    "registry classes without an instance factory are reported as uncovered_kind in the evidence (harness gap, not a pass)",
]
AVOID = set()


def configure(tier, opts):
    AVOID.clear()
    AVOID.update(TP.load_avoid(ID, opts, base=("dup_index", )))


ANNS = [None, "SelfAdjoint", "PSD", "Stiefel", "Unitary"]


# ----------------------------------------------------------------------------- instance factories
def _pd(n, dt=np.float64, shift=0.0):
    B = (np.arange(n * n).reshape(n, n) % 3 - 1).astype(dt)
    return B @ B.T + (n + 1 + shift) * np.eye(n, dtype=dt)


def factories(n=4, dt=np.float64, variant=0):
    """kind name -> zero-argument constructor of a small PD(-capable) square operator of size n (n = 4)."""
    import cola
    from cola import ops
    from cola.linalg.algorithm_base import IterativeOperatorWInfo
    from cola.linalg.inverse.inv import TriangularInv
    from cola.linalg.inverse.pinv import LSTSQSolve
    from cola.linalg.unary.unary import ArnoldiUnary, LanczosUnary
    L = cola.linalg
    h = n // 2
    A = _pd(n, dt, variant)
    A2 = _pd(h, dt, variant)
    tri = np.tril(A)
    if variant and np.dtype(dt).kind == "c":
        A = A + 1j * (np.triu(np.ones((n, n)), 1) - np.tril(np.ones((n, n)), -1))
    F = {
        "Dense": lambda: ops.Dense(A.copy()),
        "Triangular": lambda: ops.Triangular(tri.copy(), lower=True),
        "Sparse": lambda: ops.Sparse(np.diag(A).copy(), np.arange(n), np.arange(n), (n, n)),
        "ScalarMul": lambda: ops.ScalarMul(3.0, (n, n), dtype=dt),
        "Identity": lambda: ops.Identity((n, n), dt),
        "Product": lambda: ops.Product(ops.Dense(A.copy()), ops.Dense(A.copy())),
        "Sum": lambda: ops.Sum(ops.Dense(A.copy()), ops.Diagonal(np.diag(A).copy())),
        "Kronecker": lambda: ops.Kronecker(ops.Dense(A2.copy()), ops.Dense(A2.copy())),
        "KronSum": lambda: ops.KronSum(ops.Dense(A2.copy()), ops.Dense(A2.copy())),
        "BlockDiag": lambda: ops.BlockDiag(ops.Dense(A2.copy()), multiplicities=[2]),
        "Diagonal": lambda: ops.Diagonal(np.diag(A).copy()),
        "Tridiagonal": lambda: ops.Tridiagonal(np.ones(n - 1, dtype=dt), 4 * np.ones(n, dtype=dt), np.ones(n - 1, dtype=dt)),
        "Transpose": lambda: ops.Transpose(cola.ops.LinearOperator(A.dtype, A.shape, matmat=lambda X: A @ X)),
        "Adjoint": lambda: ops.Adjoint(cola.ops.LinearOperator(A.dtype, A.shape, matmat=lambda X: A @ X)),
        "Sliced": lambda: ops.Dense(_pd(n + 1, dt, variant))[0:n, 0:n],
        "Jacobian": lambda: ops.Jacobian(IR.PolyMap(A.real.astype(np.float64), np.zeros((n, n, n))), np.ones(n)),
        "Hessian": lambda: ops.Hessian(IR.ScalarPoly(A.real.astype(np.float64) / 2, np.zeros(n)), np.ones(n)),
        "Permutation": lambda: ops.Permutation(np.roll(np.arange(n), 1), dtype=dt),
        "Concatenated": lambda: ops.Concatenated(ops.Dense(A[:h].copy()), ops.Dense(A[h:].copy()), axis=0),
        "Householder": lambda: ops.Householder(np.eye(n, 1, dtype=dt), beta=2.0),
        "Kernel": lambda: ops.Kernel(np.eye(n, dtype=dt), np.eye(n, dtype=dt), lambda a, b: a @ A @ b.T, 2, 2),
        "FFT": lambda: ops.FFT(n, dtype=np.complex128),
        "LinearOperator": lambda: cola.ops.LinearOperator(A.dtype, A.shape, matmat=lambda X: A @ X),
        "IterativeOperatorWInfo": lambda: IterativeOperatorWInfo(cola.PSD(ops.Dense(A.copy())), L.CG(tol=1e-10)),
        "TriangularInv": lambda: TriangularInv(ops.Triangular(tri.copy(), lower=True)),
        "LSTSQSolve": lambda: LSTSQSolve(ops.Dense(A.copy())),
        "LanczosUnary": lambda: LanczosUnary(cola.SelfAdjoint(ops.Dense(A.copy())), np.sqrt, max_iters=n, tol=1e-10),
        "ArnoldiUnary": lambda: ArnoldiUnary(ops.Dense(A.copy()), np.sqrt, max_iters=n, tol=1e-10),
    }
    return F


def registry_classes():
    """All LinearOperator subclasses named in any signature of the live registry."""
    from plum import dispatch
    from cola.ops import LinearOperator
    import cola.linalg.svd.svd  # noqa: F401  (no __init__.py: register svd explicitly)
    found = set()

    def visit(t):
        if isinstance(t, type):
            if issubclass(t, LinearOperator):
                found.add(t.__name__.split("[")[0])
            return
        for a in getattr(t, "__args__", ()) or ():
            visit(a)

    for name, f in dispatch.functions.items():
        try:
            f._resolve_pending_registrations()
        except Exception:
            pass
        for s in f._resolver.signatures:
            for t in s.types:
                visit(t)
    return found


def annotate(A, ann):
    import cola
    return A if ann is None else getattr(cola, ann)(A)


# ----------------------------------------------------------------------------- the call lattice
def alg_objects(n):
    import cola
    from cola.linalg.svd.svd import DenseSVD
    from cola.linalg.inverse.pinv import LSTSQ
    L = cola.linalg
    return {
        "omitted": None, "Auto": lambda: L.Auto(), "Auto(kw)": lambda: L.Auto(tol=1e-4, max_iters=n + 2),
        "LU": lambda: L.LU(), "Cholesky": lambda: L.Cholesky(), "CG": lambda: L.CG(tol=1e-8, max_iters=50),
        "GMRES": lambda: L.GMRES(tol=1e-8, max_iters=n), "LSTSQ": lambda: LSTSQ(),
        "Lanczos": lambda: L.Lanczos(max_iters=n, tol=1e-10), "Arnoldi": lambda: L.Arnoldi(max_iters=n, tol=1e-10),
        "Lanczos()": lambda: L.Lanczos(), "Arnoldi()": lambda: L.Arnoldi(),
        "Exact": lambda: L.Exact(), "Hutch": lambda: L.Hutch(tol=0.5, max_iters=2, key=1),
        "Eig": lambda: L.Eig(), "Eigh": lambda: L.Eigh(), "PowerIteration": lambda: L.PowerIteration(max_iter=5),
        "LOBPCG": lambda: L.LOBPCG(max_iters=3), "DenseSVD": lambda: DenseSVD(),
    }


UNARY_CALLS = {}  # name -> list of (variant label, callable(cola, A, algs, n))


def _build_calls():
    def reg(name, variants):
        UNARY_CALLS[name] = variants

    def with_alg(fn, algs):
        out = []
        for a in algs:
            out.append((a, (lambda a: lambda cola, A, ALG, n: fn(cola, A, n) if a == "omitted" else fn(cola, A, n, ALG[a]()))(a)))
        return out

    L = lambda cola: cola.linalg  # noqa: E731
    reg("transpose", [("", lambda cola, A, ALG, n: A.T)])
    reg("adjoint", [("", lambda cola, A, ALG, n: A.H)])
    reg("cholesky", [("", lambda cola, A, ALG, n: __import__("cola.linalg.decompositions.decompositions", fromlist=["x"]).cholesky(A))])
    reg("plu", [("", lambda cola, A, ALG, n: __import__("cola.linalg.decompositions.decompositions", fromlist=["x"]).plu(A))])
    inv_algs = ["omitted", "Auto", "Auto(kw)", "LU", "Cholesky", "CG", "GMRES"]
    reg("inv", with_alg(lambda cola, A, n, *alg: L(cola).inv(A, *alg) @ np.ones(n), inv_algs))
    reg("solve", with_alg(lambda cola, A, n, *alg: L(cola).solve(A, np.ones((n, 2)), *alg), inv_algs))
    reg("pinv", with_alg(lambda cola, A, n, *alg: L(cola).pinv(A, *alg) @ np.ones(n), ["omitted", "Auto", "LSTSQ", "CG"]))
    log_algs = ["omitted", "Auto", "Cholesky", "LU", "Lanczos", "Arnoldi"]
    tr_algs = ["omitted", "Auto", "Exact", "Hutch"]
    sl = []
    for la, ta in itertools.product(log_algs, tr_algs):
        def f(cola, A, ALG, n, la=la, ta=ta, which="slogdet"):
            kw = {}
            if la != "omitted":
                kw["log_alg"] = ALG[la]()
            if ta != "omitted":
                kw["trace_alg"] = ALG[ta]()
            return getattr(L(cola), which)(A, **kw)
        sl.append((f"{la},{ta}", f))
    reg("slogdet", sl)
    reg("logdet", [(lab, (lambda f: lambda cola, A, ALG, n: f(cola, A, ALG, n, which="logdet"))(f)) for lab, f in sl])
    dg = []
    for k, ta in itertools.product(["omitted", 0, 1, -1], tr_algs):
        def f(cola, A, ALG, n, k=k, ta=ta):
            args = [] if k == "omitted" else [k]
            if ta != "omitted":
                if k == "omitted":
                    return L(cola).diag(A, alg=ALG[ta]())
                args.append(ALG[ta]())
            return L(cola).diag(A, *args)
        dg.append((f"k={k},{ta}", f))
    reg("diag", dg)
    reg("trace", with_alg(lambda cola, A, n, *alg: L(cola).trace(A, *alg), tr_algs))
    un_algs = ["omitted", "Auto", "Eig", "Eigh", "Lanczos", "Arnoldi", "Lanczos()", "Arnoldi()"]
    for fn in ("exp", "log", "sqrt", "isqrt"):
        reg(fn, with_alg((lambda fn: lambda cola, A, n, *alg: getattr(L(cola), fn)(A, *alg) @ np.ones(n))(fn), un_algs))
    pw = []
    for a in (-1, 0.5, 2):
        pw += [(f"{a},{lab}", f) for lab, f in with_alg((lambda a: lambda cola, A, n, *alg: L(cola).pow(A, a, *alg) @ np.ones(n))(a), un_algs)]
    # exponents that are NumPy scalars (elements of arrays, results of NumPy arithmetic) are numbers too
    for a in (np.float32(0.5), np.int64(2), np.int32(-1), np.float64(2.5)):
        pw += [(f"{type(a).__name__}({a}),{lab}", f)
               for lab, f in with_alg((lambda a: lambda cola, A, n, *alg: L(cola).pow(A, a, *alg) @ np.ones(n))(a), ["omitted", "Auto", "Eig"])]
    reg("pow", pw)
    reg("apply_unary", with_alg(lambda cola, A, n, *alg: L(cola).apply_unary(np.sin, A, *alg) @ np.ones(n), un_algs))
    eig_algs = ["omitted", "Auto", "Auto(kw)", "Eig", "Eigh", "Lanczos", "Arnoldi", "PowerIteration", "LOBPCG"]
    eg = []
    for k, which in itertools.product(("1", "n"), ("omitted", "LM", "SM")):
        def mk(k=k, which=which):
            def f(cola, A, n, *alg):
                kk = 1 if k == "1" else n
                if which == "omitted":
                    return L(cola).eig(A, kk, alg=alg[0]) if alg else L(cola).eig(A, kk)
                return L(cola).eig(A, kk, which, *alg)
            return f
        eg += [(f"k={k},{which},{lab}", f) for lab, f in with_alg(mk(), eig_algs)]
    reg("eig", eg)
    reg("eigmax", with_alg(lambda cola, A, n, *alg: L(cola).eigmax(A, *alg), eig_algs))
    reg("eigmin", with_alg(lambda cola, A, n, *alg: L(cola).eigmin(A, *alg), eig_algs))
    sv = []
    for k in ("1", "n"):
        def mk(k=k):
            def f(cola, A, n, *alg):
                from cola.linalg.svd.svd import svd
                kk = 1 if k == "1" else n
                return svd(A, kk, "LM", *alg) if alg else svd(A, kk)
            return f
        sv += [(f"k={k},{lab}", f) for lab, f in with_alg(mk(), ["omitted", "Auto", "DenseSVD", "Lanczos", "LOBPCG"])]
    reg("svd", sv)


_build_calls()

BINARY = {
    "dot": lambda cola, A, B: A @ B,
    "add": lambda cola, A, B: A + B,
    "sub": lambda cola, A, B: A - B,
    "kron": lambda cola, A, B: cola.kron(A, B),
    "kronsum": lambda cola, A, B: cola.kronsum(A, B),
    "block_diag": lambda cola, A, B: cola.block_diag(A, B),
}
SCALARS = {"int": 2, "float": -1.5, "complex": 1 + 2j, "np.float32": np.float32(2), "0d": np.array(3.0)}


def is_lookup_error(e):
    from plum.resolver import AmbiguousLookupError, NotFoundLookupError
    seen = set()
    while e is not None and id(e) not in seen:
        seen.add(id(e))
        if isinstance(e, (AmbiguousLookupError, NotFoundLookupError)):
            return type(e).__name__
        e = e.__cause__ or e.__context__
    return None


def n_matching(fname, args):
    """How many registered signatures of plum function `fname` match these concrete arguments."""
    from plum import dispatch
    f = dispatch.functions.get(fname)
    if f is None:
        return 0
    try:
        f._resolve_pending_registrations()
        return sum(1 for s in f._resolver.signatures if s.match(args))
    except Exception:
        return 0


def n_matching_first(fname, A):
    """How many registered signatures of `fname` accept A as their first argument."""
    from beartype.door import is_bearable
    from plum import dispatch
    f = dispatch.functions.get(fname)
    if f is None:
        return 0
    try:
        f._resolve_pending_registrations()
    except Exception:
        pass
    cnt = 0
    for s in f._resolver.signatures:
        try:
            if s.types and is_bearable(A, s.types[0]):
                cnt += 1
        except Exception:
            pass
    return cnt


def load_optional_modules():
    """modules that `import cola` does not load but that register rules in the same global registry (keyed by function
    name): a user who imports them must still get exactly one applicable rule for every call of the lattice"""
    import importlib
    for m in ("cola.linalg.preconditioning.preconditioners", "cola.linalg.svd.svd", "cola.linalg.tbd.slq", "cola.linalg.tbd.randomized_svd"):
        try:
            importlib.import_module(m)
        except Exception:
            pass


def run_tuple(t):
    """t = (family, fname, kind, kind2|None, ann, variant) -> (status, detail, nontrivial)."""
    import cola
    from cvh import runner
    load_optional_modules()
    family, fname, kind, kind2, ann, variant, n, dtn = t
    dt = {"f8": np.float64, "c16": np.complex128, "f4": np.float32}[dtn]
    F = factories(n, dt, 0 if dtn == "f8" else 1)
    ALG = alg_objects(n)
    try:
        A = annotate(F[kind](), ann)
        B = F[kind2]() if kind2 else None
    except Exception as e:
        le = is_lookup_error(e)
        return ("lookup" if le else "ctor_error", f"{le or type(e).__name__}: {str(e)[:200]}", False)
    nontriv = False
    try:
        if family == "unary":
            call = dict(UNARY_CALLS[fname])[variant]
            nontriv = n_matching_first({"solve": "inv", "logdet": "slogdet", "eigmax": "eig", "eigmin": "eig"}.get(fname, fname), A) > 1
            call(cola, A, ALG, n)
        elif family == "binary":
            nontriv = n_matching({"sub": "add", "block_diag": "dot"}.get(fname, fname), (A, B)) > 1
            BINARY[fname](cola, A, B)
        elif family == "scalar":
            c = SCALARS[variant]
            nontriv = True
            {"mul": lambda: A * c, "rmul": lambda: c * A, "div": lambda: A / c, "neg": lambda: -A}[fname]()
    except Exception as e:
        le = is_lookup_error(e)
        if le:
            return ("lookup", f"{le}: {str(e)[:300]}", True)
        tn, site = oracle.exc_bucket(e)
        return ("other", f"{tn}@{site}", nontriv)
    return ("ok", "", nontriv)


def lattice(tier):
    kinds = sorted(factories().keys())
    tuples = []
    sizes = [(4, "f8")] + ([(2, "c16"), (6, "f4")] if tier == "thorough" else [])
    for n, dtn in sizes:
        for fname, variants in UNARY_CALLS.items():
            for kind in kinds:
                for ann in ANNS:
                    for lab, _ in variants:
                        tuples.append(("unary", fname, kind, None, ann, lab, n, dtn))
        for fname in BINARY:
            for k1 in kinds:
                for k2 in kinds:
                    for ann in ANNS:
                        tuples.append(("binary", fname, k1, k2, ann, "", n, dtn))
        for fname in ("mul", "rmul", "div", "neg"):
            for kind in kinds:
                for ann in ANNS:
                    for sc in (SCALARS if fname != "neg" else ["int"]):
                        tuples.append(("scalar", fname, kind, None, ann, sc, n, dtn))
    return tuples


# ---- the large branch of every Auto rule (> 1e6 entries): matrix-free 1001 x 1001 operators, cheap products
LARGE_CALLS = ["inv", "solve", "pinv", "slogdet", "logdet", "diag", "trace", "exp", "log", "sqrt", "isqrt", "pow", "apply_unary", "eig", "eigmax",
               "eigmin", "svd"]
LARGE_OMITTED = ["inv", "pinv", "eig", "exp", "svd"]


def large_operator(psd, ann, n=1001):
    import cola
    r = 4
    rng = np.random.default_rng(5)
    U = rng.standard_normal((n, r)) / np.sqrt(n)
    V = U if psd else rng.standard_normal((n, r)) / np.sqrt(n)
    A = cola.ops.LinearOperator(np.float64, (n, n), matmat=lambda X: 2.0 * X + U @ (V.T @ X))
    return annotate(A, ann), n


def run_large(t):
    import cola
    from cola.linalg.svd.svd import svd
    L = cola.linalg
    fname, psd, ann, variant = t[:4]
    load_optional_modules()
    A, n = large_operator(psd, ann, t[4] if len(t) > 4 else 1001)
    kw = dict(tol=2e-3, max_iters=12)
    alg = [] if variant == "omitted" else [L.Auto(**kw)]
    v = np.ones(n)
    try:
        if fname == "inv":
            L.inv(A, *alg) @ v
        elif fname == "solve":
            L.solve(A, v, *alg)
        elif fname == "pinv":
            L.pinv(A, *alg) @ v
        elif fname in ("slogdet", "logdet"):
            getattr(L, fname)(A, **({} if not alg else {"log_alg": alg[0], "trace_alg": L.Auto(**kw)}))
        elif fname == "diag":
            L.diag(A, 0, *alg)
        elif fname == "trace":
            L.trace(A, *alg)
        elif fname in ("exp", "log", "sqrt", "isqrt"):
            getattr(L, fname)(A, *alg) @ v
        elif fname == "pow":
            L.pow(A, 0.5, *alg) @ v
        elif fname == "apply_unary":
            L.apply_unary(np.tanh, A, *alg) @ v
        elif fname == "eig":
            L.eig(A, 2, "LM", *alg)
        elif fname in ("eigmax", "eigmin"):
            getattr(L, fname)(A, *alg)
        elif fname == "svd":
            svd(A, 2, "LM", *alg)
    except Exception as e:
        le = is_lookup_error(e)
        if le:
            return ("lookup", f"{le}: {str(e)[:300]}")
        tn, site = oracle.exc_bucket(e)
        return ("other", f"{tn}@{site}")
    return ("ok", "")


def large_lattice():
    out = []
    for fname in LARGE_CALLS:
        for psd in (True, False):
            for ann in ([None, "PSD", "SelfAdjoint"] if psd else [None]):
                out.append((fname, psd, ann, "Auto(kw)"))
                if fname in LARGE_OMITTED:
                    out.append((fname, psd, ann, "omitted"))
    # exactly at the switch: 1000 x 1000 = 10^6 entries (one side or the other has to take it)
    for fname in LARGE_CALLS:
        for psd in (True, False):
            out.append((fname, psd, None, "Auto(kw)", 1000))
            if fname in LARGE_OMITTED:
                out.append((fname, psd, None, "omitted", 1000))
    return out


def _work_large(t):
    from cvh import runner
    runner.setup_cola()
    return (t, ) + run_large(t)


def _work(chunk):
    from cvh import runner
    runner.setup_cola()
    out = []
    for t in chunk:
        out.append((t, ) + run_tuple(t))
    return out


def deterministic(tier, seed, open_findings):
    from cvh import runner
    import collections
    tuples = lattice(tier)
    nproc = int(os.environ.get("VERIF_SHARDS", "16"))
    chunks = [tuples[i::nproc * 8] for i in range(nproc * 8)]
    ctx = mp.get_context("fork")
    with ctx.Pool(nproc) as pool:
        results = [r for part in pool.map(_work, chunks, chunksize=1) for r in part]
    tally = collections.Counter()
    other = collections.Counter()
    violations, samples = [], []
    nontriv = 0
    excluded = collections.Counter()
    for t, status, detail, nt in results:
        tally[status] += 1
        nontriv += 1 if nt else 0
        if status == "other":
            other[detail] += 1
        if status == "lookup":
            family, fname, kind, kind2, ann, variant, n, dtn = t
            f = {"sub": "lookup", "site": f"{fname}({kind}{',' + kind2 if kind2 else ''};{variant})", "man": detail.split(":")[0],
                 "detail": f"ann={ann} n={n} dtype={dtn} {detail}"}
            kid = runner.known_id(open_findings, f)
            if kid:
                excluded[kid] += 1
            else:
                violations.append({"case": {"mode": "tuple", "tuple": list(t)}, "failures": [f]})
        if len(samples) < 6 and status == "ok" and nt and (len(samples) == 0 or t[1] != samples[-1][1]):
            samples.append(list(t))
    # the large branches
    ltuples = large_lattice()
    with ctx.Pool(min(nproc, len(ltuples))) as pool:
        lres = pool.map(_work_large, ltuples, chunksize=1)
    for t, status, detail in lres:
        tally["large:" + status] += 1
        if status == "other":
            other["large:" + detail] += 1
        if status == "lookup":
            fname, psd, ann, variant = t[:4]
            nn = t[4] if len(t) > 4 else 1001
            f = {"sub": "lookup", "site": f"{fname}({'large' if nn > 1000 else 'threshold-size'} {'PSD-capable' if psd else 'general'} operator;{variant})",
                 "man": detail.split(":")[0], "detail": f"ann={ann} n={nn} {detail}"}
            kid = runner.known_id(open_findings, f)
            if kid:
                excluded[kid] += 1
            else:
                violations.append({"case": {"mode": "large", "tuple": list(t)}, "failures": [f]})
    nontriv += len(lres)
    uncovered = sorted(registry_classes() - set(factories().keys()))
    # de-duplicate violations by site (one replay per distinct site/manifestation, keep the first)
    seen, uniq = set(), []
    for v in violations:
        key = (v["failures"][0]["site"], v["failures"][0]["man"])
        if key not in seen:
            seen.add(key)
            uniq.append(v)
    return {"evaluations": len(results) + len(lres), "distinct_nontrivial": nontriv, "large_branch_tuples": len(lres), "samples": [{"tuple": s} for s in samples],
            "violations": uniq[:40], "lattice_tally": dict(tally), "lattice_other_exceptions": dict(other.most_common(40)),
            "lattice_violation_sites": len(uniq), "exhaustive": True, "uncovered_kind": uncovered,
            "lattice_excluded_known": dict(excluded)}


# ----------------------------------------------------------------------------- generated part
@st.composite
def cases(draw, tier):
    g = gen.TraitGen(draw, avoid=AVOID)
    n = g.integer(1, 6)
    fam = g.pick(["unary", "unary", "binary", "scalar"])
    depth = g.pick([1, 2, 2, 3])
    tree = g.pick([lambda: g.op(n, n, depth), lambda: g.sq(n, g.pick(["pd", "herm", "unitary", "inv"]), depth)])()
    case = {"mode": "tree", "family": fam, "tree": tree, "ann": g.pick(ANNS)}
    if fam == "unary":
        fname = g.pick(sorted(UNARY_CALLS))
        case["fname"] = fname
        case["variant"] = g.pick([lab for lab, _ in UNARY_CALLS[fname]])
    elif fam == "binary":
        case["fname"] = g.pick(sorted(BINARY))
        case["tree2"] = g.op(n, n, depth)
    else:
        case["fname"] = g.pick(["mul", "rmul", "div", "neg"])
        case["variant"] = g.pick(sorted(SCALARS))
    return case


def strategy(tier):
    return cases(tier)


def check(case, out):
    import cola
    if case.get("mode") == "large":
        status, detail = run_large(tuple(case["tuple"]))
        if status == "lookup":
            fname, psd, ann, variant = case["tuple"][:4]
            nn = case["tuple"][4] if len(case["tuple"]) > 4 else 1001
            out.fail("lookup", f"{fname}({'large' if nn > 1000 else 'threshold-size'} {'PSD-capable' if psd else 'general'} operator;{variant})", detail.split(":")[0], detail)
        return
    if case.get("mode") == "tuple":
        status, detail, nt = run_tuple(tuple(case["tuple"]))
        if status == "lookup":
            family, fname, kind, kind2, ann, variant, n, dtn = case["tuple"]
            out.fail("lookup", f"{fname}({kind}{',' + kind2 if kind2 else ''};{variant})", detail.split(":")[0], detail)
        return
    fam, fname = case["family"], case["fname"]
    out.label("family:" + fam, "fn:" + fname, "ann:" + str(case["ann"]))
    try:
        A = annotate(IR.build(case["tree"]), case["ann"])
        B = IR.build(case["tree2"]) if "tree2" in case else None
    except Exception as e:
        le = is_lookup_error(e)
        if le:
            out.fail("lookup", "build:" + oracle.site_of(case["tree"]), le, str(e)[:300])
        else:
            out.notes.append("build:" + oracle.exc_man(e))
        return
    n = A.shape[0]
    ALG = alg_objects(n)
    out.label("root:" + type(A).__name__.split("[")[0])
    out.nontrivial = "[" in type(A).__name__ or B is not None
    try:
        if fam == "unary":
            dict(UNARY_CALLS[fname])[case["variant"]](cola, A, ALG, n)
        elif fam == "binary":
            BINARY[fname](cola, A, B)
        else:
            c = SCALARS[case["variant"]]
            {"mul": lambda: A * c, "rmul": lambda: c * A, "div": lambda: A / c, "neg": lambda: -A}[fname]()
    except Exception as e:
        le = is_lookup_error(e)
        if le:
            kinds = type(A).__name__.split("[")[0] + ("," + type(B).__name__.split("[")[0] if B is not None else "")
            out.fail("lookup", f"{fname}({kinds};{case.get('variant', '')})", le, str(e)[:300])
        else:
            tn, site = oracle.exc_bucket(e)
            out.notes.append(f"{fname}:{tn}@{site}")
