"""C12 - CG returns the Krylov-optimal iterate and honours its stopping contract."""
import numpy as np
from hypothesis import strategies as st

from cvh import krylov_ref as KR, oracle

ID = "C12"
LEVEL = "exploration"
BUDGET = {"quick": 6000, "thorough": 100000}
WALL = {"quick": 240, "thorough": 2700}
MIN_CASES = {"quick": 800, "thorough": 8000}
RULE = ("Hypothesis draws an HPD system: A = Q diag(lam) Q^H (real/complex; spectra uniform, geometric with kappa up to 1e6, "
        "clustered, repeated; n 1..40 quick / ..200 thorough), right-hand sides (single; multiple with column norms over 12 "
        "decades; zero columns), x0 (zero or drawn), preconditioner in {none, Jacobi, random SPD Dense, NystromPrecond}, tol in "
        "[1e-12,1e-1], max_iters in 0..2n, and one sub-check: (a) Krylov optimality against a dense A-norm minimiser over "
        "x0 + K_k(MA, M r0) in the regime (kappa<=100,k<=6) or (kappa<=10,k<=12); (b) stopping contract with a "
        "product-counting wrapper (steps <= max_iters, info['iterations']-1 == steps, early stop => every column below "
        "tol(1+|r0|/|b|), one step fewer => not below, history finite); (c) zero rhs => exactly zero; (d) scaling by 2^j is "
        "bitwise linear; (e) joint solve == per-column solves at fixed k; (f) converged answer independent of the "
        "preconditioner; (g) with a real tolerance and columns of different difficulty, every column is the k-step optimum for "
        "the k steps actually run; also through inv(A, CG(...)) @ b. Non-trivial: truncated run (k < n), preconditioned, non-zero x0, "
        "multi-column with spread norms, or complex. Right-hand sides are dense, unit vectors, or sparse with rows that are "
        "exactly zero in every column; after every call the caller's b and x0 must be bit-identical."
        " Round 5: float32 / complex64 columns with norms 1e4 and 1e-4 and drawn guesses in the columns sub-check.")
ASSUMPTIONS = [
    "optimality is only judged where floating-point CG tracks exact arithmetic (calibrated regime above), at 1e-6 relative A-norm error",
    "stopping threshold judged with a 1% borderline band plus c*kappa*eps; borderline cases are counted inconclusive",
    "info['iterations'] counts condition evaluations = steps + 1 (the convention tests/algorithms/test_lanczos.py relies on)",
    "bulk payloads (unitary bases, right-hand sides) come from numpy.default_rng(seed) with the seed a Hypothesis draw; all structural parameters are direct draws",
]
SUBS = ["optimal", "optimal", "stopping", "stopping", "zero_rhs", "scaling", "columns", "precond_indep", "via_inv", "optimal_tol"]


@st.composite
def cases(draw, tier):
    sub = draw(st.sampled_from(SUBS))
    nmax = 40 if tier == "quick" else 200
    n = draw(st.integers(1, 12 if sub in ("optimal", "columns") else nmax if draw(st.integers(1, 6)) == 1 else 24))
    cplx = draw(st.booleans())
    kind = draw(st.sampled_from(["uniform", "geometric", "clustered", "repeated"]))
    if sub == "optimal":
        kexp = draw(st.sampled_from([0, 0.5, 1, 1.5, 2]))
    elif sub in ("precond_indep", "via_inv", "columns"):
        kexp = draw(st.sampled_from([0, 1, 2]))
    else:
        kexp = draw(st.sampled_from([0, 1, 2, 3, 4, 6]))
    kappa = 10.0 ** kexp
    nrhs = draw(st.sampled_from([0, 1, 2, 3]))  # 0 = 1-D right-hand side
    case = {"sub": sub, "n": n, "cplx": cplx, "spec": kind, "kappa": kappa, "seed": draw(st.integers(0, 10**6)),
            "nrhs": nrhs, "norm_exp": [draw(st.integers(-6, 6)) for _ in range(max(nrhs, 1))],
            "x0": draw(st.sampled_from(["zero", "zero", "drawn", "none"])),
            "P": draw(st.sampled_from(["none", "none", "jacobi", "spd", "nystrom"])),
            "tol_exp": draw(st.integers(-12, -1)), "max_iters": draw(st.integers(0, 2 * n)),
            "zero_col": draw(st.booleans()) and nrhs >= 2,
            "rhs_kind": draw(st.sampled_from(["dense", "dense", "dense", "unit", "zero_rows"])),
            "pbar": draw(st.integers(1, 8)) == 1}  # the progress-bar option runs the same iteration through another loop wrapper
    # single precision (float32 / complex64) for the sub-checks whose tolerances scale with eps
    case["single"] = sub in ("stopping", "zero_rhs", "via_inv", "scaling") and draw(st.integers(1, 4)) == 1
    if case["single"]:
        case["tol_exp"] = max(case["tol_exp"], -5)
        case["kappa"] = min(case["kappa"], 100.0)
    case["crhs"] = (not cplx) and sub in ("optimal", "stopping", "via_inv", "columns", "optimal_tol", "zero_rhs") and draw(st.integers(1, 5)) == 1
    if sub == "zero_rhs" and draw(st.booleans()):
        # the zero column meets a drawn guess in single precision in half of the zero_rhs cases
        case["single"], case["x0"], case["zero_col"] = True, "drawn", False
        case["tol_exp"], case["kappa"] = max(case["tol_exp"], -5), min(case["kappa"], 100.0)
    if case["zero_col"] and case["x0"] == "drawn":
        case["x0"] = "zero"  # the relative criterion is undefined for a zero column with a non-zero guess
    if sub == "optimal":
        kmax = 6 if kappa > 10 else 12
        case["max_iters"] = draw(st.integers(0, min(kmax, 2 * n)))
        case["zero_col"] = False
    if sub == "scaling":
        case["j"] = draw(st.integers(-20, 20))
    if sub == "optimal_tol":
        # a real tolerance stops the run after k steps (counted): every column is then its own k-step optimum, also the
        # columns that met the tolerance earlier (columns of different difficulty: few eigen-directions vs generic)
        case["n"] = n = draw(st.integers(4, 12))
        case["nrhs"] = draw(st.integers(2, 3))
        case["norm_exp"] = [draw(st.integers(-3, 3)) for _ in range(case["nrhs"])]
        case["kappa"] = 10.0 ** draw(st.sampled_from([0.5, 1]))
        case["spec"] = draw(st.sampled_from(["uniform", "geometric"]))
        case["tol_exp"] = draw(st.integers(-6, -1))
        case["max_iters"] = draw(st.integers(n, 2 * n))
        case["zero_col"], case["single"], case["x0"] = False, False, draw(st.sampled_from(["zero", "none"]))
        case["rhs_kind"] = "dense"
        case["easy_cols"] = [draw(st.integers(1, 2)) if draw(st.booleans()) else 0 for _ in range(case["nrhs"])]
    if sub == "columns":
        case["nrhs"] = draw(st.integers(2, 3))
        case["norm_exp"] = [draw(st.integers(-3, 3)) for _ in range(case["nrhs"])]
        if draw(st.integers(1, 3)) == 1:
            # single precision with column norms spread over more than 1 / eps (still far inside the 12 decades promised)
            case["single"], case["kappa"] = True, min(case["kappa"], 10.0)
            case["norm_exp"] = [4, -4] + [draw(st.integers(-4, 4)) for _ in range(case["nrhs"] - 2)]
            case["x0"] = draw(st.sampled_from(["drawn", "drawn", "zero"]))
        case["max_iters"] = draw(st.integers(0, min(6, n)))
        case["zero_col"] = False
    return case


def strategy(tier):
    return cases(tier)


# ----------------------------------------------------------------------------- system construction
def build_system(case):
    n, cplx, seed = case["n"], case["cplx"], case["seed"]
    lam = KR.spectrum(n, case["spec"], case["kappa"], seed)
    A, Q = KR.hermitian(lam, seed, cplx)
    rng = np.random.default_rng(seed + 1)
    k = max(case["nrhs"], 1)
    B = rng.standard_normal((n, k)) + (1j * rng.standard_normal((n, k)) if cplx else 0)
    if case.get("crhs") and not cplx:
        # round 6: a complex right-hand side (and guess) for a real symmetric operator - the result is the complex solution
        B = B + 1j * np.random.default_rng(seed + 7).standard_normal((n, k))
    rk = case.get("rhs_kind", "dense")
    if rk == "unit":  # columns are unit vectors: every other row is exactly zero in all columns
        B = np.zeros_like(B)
        for j in range(k):
            B[(seed + 3 * j) % n, j] = 1.0
    elif rk == "zero_rows" and n >= 2:  # sparse load: a drawn half of the rows is exactly zero in every column
        B[rng.permutation(n)[:max(1, n // 2)], :] = 0
        if not np.all(np.linalg.norm(B, axis=0) > 0):
            B[-1, :] = 1.0
    for j, g in enumerate(case.get("easy_cols", [])[:k]):
        if g:  # a combination of g eigenvectors: CG is exact for this column after g steps
            idx = rng.permutation(n)[:g]
            B[:, j] = Q[:, idx] @ (1.0 + rng.random(g))
    B = B / np.linalg.norm(B, axis=0) * (10.0 ** np.array(case["norm_exp"][:k], dtype=float))
    if case.get("zero_col"):
        B[:, -1] = 0
    if case["x0"] == "drawn":
        X0 = rng.standard_normal((n, k)) + (1j * rng.standard_normal((n, k)) if cplx else 0)
        if case.get("crhs") and not cplx:
            X0 = X0 + 1j * np.random.default_rng(seed + 8).standard_normal((n, k))
    else:
        X0 = np.zeros((n, k), dtype=B.dtype)
    if case["nrhs"] == 0:
        B, X0 = B[:, 0], X0[:, 0]
    if case.get("single"):
        dt = np.complex64 if cplx else np.float32
        cdt = np.complex64 if np.iscomplexobj(B) else dt
        A, B, X0 = A.astype(dt), B.astype(cdt), X0.astype(cdt)
    return A, lam, B, X0


def build_precond(case, A):
    """returns (cola operator or None, dense matrix of the preconditioner or None)."""
    import cola
    kind = case["P"]
    n = A.shape[0]
    if kind == "none":
        return None, None
    if kind == "jacobi":
        d = 1.0 / np.real(np.diag(A))
        return cola.ops.Diagonal(d.astype(A.dtype)), np.diag(d).astype(A.dtype)
    if kind == "spd":
        rng = np.random.default_rng(case["seed"] + 5)
        G = rng.standard_normal((n, n)) + (1j * rng.standard_normal((n, n)) if case["cplx"] else 0)
        P = G @ G.conj().T / n + np.eye(n)
        P = (P + P.conj().T) / 2
        return cola.ops.Dense(P.astype(A.dtype)), P.astype(A.dtype)
    if kind == "nystrom":
        if case["cplx"] or n < 2:
            return None, None
        from cola.linalg.preconditioning.preconditioners import NystromPrecond
        P = NystromPrecond(cola.PSD(cola.ops.Dense(A)), rank=max(1, n // 3), key=case["seed"] % 1000 + 1)
        return P, np.asarray(P.to_dense())
    raise ValueError(kind)


class InputMutated(Exception):
    pass


PBAR = [False]


def run_cg(A, B, X0, P, tol, max_iters, x0_none=False):
    from cola.linalg.inverse.cg import cg
    op = KR.counting_operator(A, annotations=("PSD", ))
    kw = {} if P is None else {"P": P}
    Bc, Xc = B.copy(), X0.copy()
    if PBAR[0]:
        with oracle.quiet():
            x, info = cg(op, Bc, x0=None if x0_none else Xc, tol=tol, max_iters=max_iters, pbar=True, **kw)
    else:
        x, info = cg(op, Bc, x0=None if x0_none else Xc, tol=tol, max_iters=max_iters, **kw)
    if not np.array_equal(Bc, B) or not np.array_equal(Xc, X0):
        # the iterate is defined relative to the caller's x0 and b: they must still be what the caller passed
        raise InputMutated("cg changed the caller's " + ("right-hand side" if not np.array_equal(Bc, B) else "initial guess"))
    return x, info, op


def col_list(B):
    return [B] if B.ndim == 1 else [B[:, j] for j in range(B.shape[1])]


def check(case, out):
    import cola
    sub = case["sub"]
    PBAR[0] = bool(case.get("pbar"))
    if PBAR[0]:
        out.label("pbar")
    A, lam, B, X0 = build_system(case)
    n = case["n"]
    kappa = float(lam.max() / lam.min())
    out.label("sub:" + sub, "spec:" + case["spec"], "kappa:1e%g" % np.round(np.log10(max(kappa, 1)), 1), "P:" + case["P"],
              "x0:" + case["x0"], "nrhs:%d" % case["nrhs"], "complex" if case["cplx"] else "real", "rhs:" + case.get("rhs_kind", "dense"))
    P, Pd = build_precond(case, A)
    if case["P"] != "none" and P is None:
        out.label("P:skipped")
    tol = 10.0 ** case["tol_exp"]
    k = case["max_iters"]
    x0_none = case["x0"] == "none"
    eps = np.finfo(np.float32 if case.get("single") else np.float64).eps
    if case.get("single"):
        out.label("single_precision")
    if case.get("crhs"):
        out.label("rhs:complex_for_real_operator")
    out.nontrivial = (k < n) or P is not None or case["x0"] == "drawn" or (case["nrhs"] >= 2) or case["cplx"]
    site = f"cg:{'P' if P is not None else 'noP'}:{'x0' if case['x0'] == 'drawn' else 'x0=0'}"

    def call(fn):
        try:
            return fn()
        except InputMutated as e:
            out.fail(sub, site, "input_mutated", e)
            return None
        except Exception as e:
            out.fail(sub, site, oracle.exc_man(e), e)
            return None

    if sub == "optimal":
        res = call(lambda: run_cg(A, B, X0, P, 1e-300, k, x0_none))  # tolerance so small that only max_iters stops it
        if res is None:
            return
        x, info, op = res
        xs, bs, x0s = col_list(np.asarray(x)), col_list(B), col_list(X0)
        for j, (xj, bj, x0j) in enumerate(zip(xs, bs, x0s)):
            xstar = np.linalg.solve(A, bj)
            xopt = KR.cg_optimal(A, Pd, bj, x0j, k)
            e_opt = KR.anorm(A, xopt - xstar)
            e_cg = KR.anorm(A, xj - xstar)
            scale = max(KR.anorm(A, x0j - xstar), KR.anorm(A, xstar), 1e-300)
            if not np.all(np.isfinite(xj)):
                out.fail(sub, site, "nonfinite", f"col {j}")
            elif e_cg > e_opt + 1e-6 * scale:
                out.fail(sub, site, "not_optimal", f"col {j}: A-norm error {e_cg:.3e} vs optimum {e_opt:.3e} (scale {scale:.3e}, k={k}, n={n}, |b|={np.linalg.norm(bj):.2e})")
        return

    if sub == "optimal_tol":
        res = call(lambda: run_cg(A, B, X0, P, tol, k, x0_none))
        if res is None:
            return
        x, info, op = res
        steps = op.calls - 1
        out.label("steps:%d" % min(steps, 12))
        for j, (xj, bj, x0j) in enumerate(zip(col_list(np.asarray(x)), col_list(B), col_list(X0))):
            xstar = np.linalg.solve(A, bj)
            xopt = KR.cg_optimal(A, Pd, bj, x0j, steps)
            e_opt, e_cg = KR.anorm(A, xopt - xstar), KR.anorm(A, xj - xstar)
            scale = max(KR.anorm(A, x0j - xstar), KR.anorm(A, xstar), 1e-300)
            if not np.all(np.isfinite(xj)):
                out.fail(sub, site, "nonfinite", f"col {j}")
            elif steps <= 12 and e_cg > e_opt + 1e-6 * scale:
                out.fail(sub, site, "not_optimal_at_returned_step", f"col {j}: A-norm error {e_cg:.3e} vs optimum {e_opt:.3e} over K_{steps} (scale {scale:.3e}, tol={tol:g}, n={n})")
        return

    if sub == "stopping":
        res = call(lambda: run_cg(A, B, X0, P, tol, k, x0_none))
        if res is None:
            return
        x, info, op = res
        steps = op.calls - 1
        if steps > k:
            out.fail(sub, site, "too_many_steps", f"{steps} steps > max_iters {k}")
        if info.get("iterations", None) is None or info["iterations"] - 1 != steps:
            out.fail(sub, site, "iteration_count", f"info['iterations']={info.get('iterations')} but {steps} products after the initial residual")
        errs = np.asarray(info.get("errors", []), dtype=float)
        if errs.size and not np.all(np.isfinite(errs)):
            out.fail(sub, site, "history_nonfinite", str(errs[:5]))
        xs, bs, x0s = col_list(np.asarray(x)), col_list(B), col_list(X0)
        thr, rel = [], []
        for xj, bj, x0j in zip(xs, bs, x0s):
            nb = np.linalg.norm(bj)
            if nb == 0:
                continue
            r0 = np.linalg.norm(bj - A @ x0j) / nb
            thr.append(tol * (1 + r0))
            rel.append(np.linalg.norm(bj - A @ xj) / nb)
        if not thr:
            return
        thr, rel = np.array(thr), np.array(rel)
        slack = 50 * kappa * eps * (1 + np.max(np.abs(rel)))
        if not np.all(np.isfinite(rel)):
            out.fail(sub, site, "nonfinite", "solution")
            return
        if steps < k:  # stopped early: every column must be below its threshold
            bad = rel > thr * 1.01 + slack
            if np.any(bad):
                out.fail(sub, site, "stopped_above_tol", f"steps={steps}<max_iters={k}: rel residual {rel} thresholds {thr}")
            elif np.any(rel > thr * 0.99 - slack) and np.any(rel > thr):
                out.inconclusive += 1
            # one step fewer must not already satisfy the criterion ("stops as soon as")
            if steps >= 1:
                res2 = call(lambda: run_cg(A, B, X0, P, tol, steps - 1, x0_none))
                if res2 is not None:
                    x2 = np.asarray(res2[0])
                    rel2 = np.array([np.linalg.norm(bj - A @ xj) / np.linalg.norm(bj) for xj, bj in zip(col_list(x2), bs) if np.linalg.norm(bj) > 0])
                    if np.all(rel2 < thr * 0.99 - slack):
                        out.fail(sub, site, "stopped_late", f"already below tolerance after {steps - 1} steps: {rel2} thresholds {thr}")
        return

    if sub == "zero_rhs":
        # a zero right-hand side (all columns, or only the last one of a batch) has the solution zero, whatever the guess
        Bz = np.zeros_like(B)
        partial = B.ndim == 2 and B.shape[1] >= 2 and case["seed"] % 2 == 0
        if partial:
            Bz[:, :-1] = B[:, :-1]
            out.label("zero_rhs:last_column_only")
        res = call(lambda: run_cg(A, Bz, X0, P, tol, max(k, 1) if partial else k, x0_none))
        if res is None:
            return
        x = np.asarray(res[0])
        z = x[:, -1] if partial else x
        if not np.array_equal(z, np.zeros_like(z)):
            out.fail(sub, site, "nonzero", f"max |x| = {np.abs(z).max()} for a zero right-hand side" + (" column" if partial else ""))
        return

    if sub == "scaling":
        Z = np.zeros_like(X0)
        r1 = call(lambda: run_cg(A, B, Z, P, tol, k, x0_none))
        r2 = call(lambda: run_cg(A, B * 2.0 ** case["j"], Z, P, tol, k, x0_none))
        if r1 is None or r2 is None:
            return
        x1, x2 = np.asarray(r1[0]), np.asarray(r2[0])
        if not np.array_equal(x1 * 2.0 ** case["j"], x2):
            d = np.abs(x1 * 2.0 ** case["j"] - x2).max() / max(np.abs(x2).max(), 1e-300)
            out.fail(sub, site, "not_linear", f"cg(A, 2^{case['j']} b) != 2^{case['j']} cg(A, b): rel diff {d:.3e}")
        return

    if sub == "columns":
        res = call(lambda: run_cg(A, B, X0, P, 1e-300, k, x0_none))
        if res is None:
            return
        X = np.asarray(res[0])
        for j in range(B.shape[1]):
            rj = call(lambda: run_cg(A, B[:, j], X0[:, j], P, 1e-300, k, x0_none))
            if rj is None:
                return
            xj = np.asarray(rj[0])
            den = max(np.linalg.norm(xj), np.linalg.norm(X0[:, j]), 1e-300)  # rounding is relative to the larger of x and x0
            if np.linalg.norm(X[:, j] - xj) > (2e-4 if case.get("single") else 1e-8) * kappa * den:
                out.fail(sub, site, "column_coupling", f"col {j}: joint vs solo differ by {np.linalg.norm(X[:, j] - xj) / den:.3e} at k={k}")
        return

    if sub == "precond_indep":
        t = max(tol, 1e-10)
        r1 = call(lambda: run_cg(A, B, X0, None, t, 50 * n + 50, x0_none))
        r2 = call(lambda: run_cg(A, B, X0, P, t, 50 * n + 50, x0_none))
        if r1 is None or r2 is None:
            return
        for xa, xb, bj, x0j in zip(col_list(np.asarray(r1[0])), col_list(np.asarray(r2[0])), col_list(B), col_list(X0)):
            nb = np.linalg.norm(bj)
            if nb == 0:
                continue
            r0 = np.linalg.norm(bj - A @ x0j) / nb
            # both satisfy ||b - A x|| <= t (1 + r0) ||b||  =>  ||xa - xb|| <= 2 t (1+r0) ||b|| / lambda_min
            bound = 2.2 * t * (1 + r0) * nb / lam.min() + 100 * kappa * eps * max(np.linalg.norm(xa), np.linalg.norm(xb))
            for nm, xx in (("plain", xa), ("preconditioned", xb)):
                if np.linalg.norm(bj - A @ xx) > 1.01 * t * (1 + r0) * nb + 100 * kappa * eps * nb * (1 + r0):
                    out.fail(sub, site, "not_converged:" + nm, f"rel residual {np.linalg.norm(bj - A @ xx) / nb:.3e} > {t * (1 + r0):.3e} with max_iters={50 * n + 50}")
                    return
            if np.linalg.norm(xa - xb) > bound:
                out.fail(sub, site, "depends_on_preconditioner", f"|x - x_P| = {np.linalg.norm(xa - xb):.3e} > {bound:.3e}")
        return

    if sub == "via_inv":
        t = max(tol, 1e-10)
        op = KR.counting_operator(A, annotations=("PSD", ))
        alg = cola.linalg.CG(tol=t, max_iters=50 * n + 50) if P is None else cola.linalg.CG(tol=t, max_iters=50 * n + 50, P=P)
        y = call(lambda: cola.linalg.inv(op, alg) @ B)
        z = call(lambda: cola.linalg.solve(op, B, alg))
        # one inverse object applied to two right-hand sides of different difficulty (generic / an eigenvector): after
        # each product its info describes that solve - the step count is compared with the products the operator saw
        def two_solves():
            w, V = np.linalg.eigh(A.astype(np.complex128) if np.iscomplexobj(A) else A.astype(np.float64))
            easy = V[:, [0]].astype(A.dtype)
            hard = (B if B.ndim == 2 else B[:, None])[:, [0]]
            op2 = KR.counting_operator(A, annotations=("PSD", ))
            Ainv = cola.linalg.inv(op2, alg)
            for name, rhs in (("first", hard), ("second", easy)) if case["seed"] % 2 else (("first", easy), ("second", hard)):
                before = op2.calls
                Ainv @ rhs
                steps = op2.calls - before - 1
                it = getattr(Ainv, "info", {}).get("iterations")
                if it is None or it - 1 != steps:
                    out.fail(sub, "cg:inv:info", "stale_or_missing", f"{name} product took {steps} steps but info['iterations'] = {it}")
                    return
        if n >= 3 and P is None:
            call(two_solves)
        for nm, xx in (("inv", y), ("solve", z)):
            if xx is None:
                continue
            for xj, bj in zip(col_list(np.asarray(xx)), col_list(B)):
                nb = np.linalg.norm(bj)
                if nb == 0:
                    continue
                if np.linalg.norm(bj - A @ xj) > 2.02 * t * nb + 100 * kappa * eps * nb:
                    out.fail(sub, "cg:" + nm, "residual", f"rel residual {np.linalg.norm(bj - A @ xj) / nb:.3e} > {2 * t:.1e}")
        return
