"""C10 - eig returns the requested eigenpairs of the represented matrix."""
import numpy as np
from hypothesis import strategies as st

from cvh import krylov_ref as KR, oracle

ID = "C10"
LEVEL = "exploration"
BUDGET = {"quick": 8000, "thorough": 150000}
WALL = {"quick": 240, "thorough": 2700}
MIN_CASES = {"quick": 800, "thorough": 8000}
RULE = ("Hypothesis draws a square operator with simple, well-separated spectrum (relative gaps >= 0.15 in magnitude, except "
        "deliberate conjugate pairs): Hermitian definite / indefinite (real, complex), real non-symmetric with conjugate pairs, "
        "complex general, Diagonal with unsorted/negative entries, lower/upper Triangular, Identity; 1 <= k <= n; which in "
        "{LM, SM}; algorithm in {omitted, Auto, Eig, Eigh, Lanczos, Arnoldi, PowerIteration (k=1, LM)} with iteration caps "
        "equal to and above n; also eigmax / eigmin. Oracle (validity predicate): k values and an n x k operator; every pair "
        "has |A v - lam v| <= tol |A||v| with v != 0; vectors linearly independent (orthonormal for self-adjoint A); the "
        "multiset of values equals the k eigenvalues of largest (LM) / smallest (SM) magnitude of numpy.linalg.eigvals(M), ties "
        "(conjugate pairs split by k) accepting either member; k = n reproduces the spectrum; eigmax/eigmin equal the k=1 "
        "answer. Non-trivial: indefinite, non-normal or complex input, or k < n, or cap != n."
        " Further: Krylov tolerance 0, one eigenvalue exactly 0 or 1e-9, the algorithm object used before on a smaller"
        " operator, explicit start vectors of another dtype / precision (results of a double-precision operator must"
        " be double precision)."
        " Round 5: a dominant eigenvalue (ratio 0.34) so that power iteration is inside its judged regime, operators"
        " rescaled by 10^-8..10^3.")
ASSUMPTIONS = [
    "eigenpair residual tolerance 1e-6 |A||v| (1e-3 relative for PowerIteration on dominance ratio <= 0.5); selection compared at 1e-6 |A| cond(X)",
    "AssertionError from the selected rule (Eigh/Lanczos on undeclared operators, PowerIteration with k != 1) is an in-contract refusal",
    "for Identity every unit vector is an eigenvector: only pair validity, count and independence are demanded",
]
KINDS = ["herm_def", "herm_indef", "herm_indef", "real_pairs", "complex", "diag", "diag", "tri_lower", "tri_upper", "eye"]
ALGS = ["omitted", "Auto", "Eig", "Eigh", "Lanczos", "Arnoldi", "PowerIteration"]


@st.composite
def cases(draw, tier):
    kind = draw(st.sampled_from(KINDS))
    n = draw(st.integers(1, 8 if tier == "quick" else 14))
    alg = draw(st.sampled_from(ALGS))
    if alg in ("Eigh", "Lanczos") and kind not in ("herm_def", "herm_indef", "diag", "eye"):
        kind = draw(st.sampled_from(["herm_def", "herm_indef"]))
    k = draw(st.integers(1, n))
    if draw(st.integers(1, 10)) == 1:
        # round 6: more rows than any fixed-size Krylov working space (n 21..40), a few pairs, the cap at or above n
        n = draw(st.integers(21, 40))
        k = draw(st.integers(1, 4))
        alg = draw(st.sampled_from(["Lanczos", "Arnoldi", "Arnoldi", "Auto", "Eig"]))
        if alg == "Lanczos" and kind not in ("herm_def", "herm_indef", "diag", "eye"):
            kind = draw(st.sampled_from(["herm_def", "herm_indef"]))
    which = draw(st.sampled_from(["LM", "SM", "omitted"]))
    fn = draw(st.sampled_from(["eig", "eig", "eig", "eigmax", "eigmin"]))
    force_dominant = False
    if alg in ("omitted", "Auto") and kind in ("herm_def", "herm_indef") and draw(st.integers(1, 3)) == 1:
        k, which, fn, force_dominant = 1, draw(st.sampled_from(["LM", "omitted"])), draw(st.sampled_from(["eig", "eigmax"])), True
    if alg == "PowerIteration":
        k, which = 1, draw(st.sampled_from(["LM", "omitted"]))
        fn = draw(st.sampled_from(["eig", "eigmax"]))
        force_dominant = True
        if kind not in ("herm_def", "herm_indef"):
            kind = draw(st.sampled_from(["herm_def", "herm_indef"]))  # (real spectrum: the regime in which it is judged)
    return {"kind": kind, "n": n, "alg": alg, "k": k, "which": which, "fn": fn, "seed": draw(st.integers(0, 10**6)),
            "cplx": draw(st.booleans()), "cap": draw(st.sampled_from(["n", "n", "n+3"])), "declare": draw(st.booleans()),
            # Krylov tolerance (0 = never stop early) and an eigenvalue that is exactly zero or 1e-9 of the others
            "ktol0": draw(st.integers(1, 4)) == 1, "tiny": draw(st.sampled_from([None, None, None, 0.0, 1e-9])),
            # the algorithm object is first used on a smaller operator; an explicit start vector of another dtype / precision
            "warm_small": draw(st.integers(1, 4)) == 1, "start": draw(st.sampled_from([None, None, None, "same", "c64", "f32"])),
            # the whole operator rescaled by 10^sscale (eigenvectors unchanged, eigenvalues scale with it)
            "sscale": draw(st.sampled_from([0, -3, -6, -8, 3] if force_dominant else [0, 0, 0, -3, -2, 3, -9, -8, 8])), "dominant": draw(st.booleans()) or force_dominant}


def strategy(tier):
    return cases(tier)


DOMINANT = [False]


def spectrum(n, rng, signed, tiny=None):
    mags = 0.7 * 1.25 ** (np.arange(n) + rng.random(n) * 0.3)
    if DOMINANT[0]:
        mags[-1] *= 3.0  # a dominant eigenvalue (ratio <= 0.34 to the next): the regime in which power iteration is judged
    rng.shuffle(mags)
    if signed:
        mags = mags * np.where(rng.random(n) < 0.5, -1, 1)
    if tiny is not None and n >= 2:
        mags[int(rng.integers(0, n))] = tiny  # still simple and well separated: one eigenvalue at (or next to) zero
    return mags


def build(case):
    import cola
    ops = cola.ops
    kind, n, seed = case["kind"], case["n"], case["seed"]
    rng = np.random.default_rng(seed)
    condx = 1.0
    if kind in ("herm_def", "herm_indef"):
        lam = spectrum(n, rng, kind == "herm_indef", case.get("tiny"))
        M, Q = KR.hermitian(lam, seed, case["cplx"])
        A = ops.Dense(M)
        if case["declare"] or case["alg"] in ("Eigh", "Lanczos"):
            A = cola.SelfAdjoint(A)
    elif kind == "real_pairs":
        D = np.zeros((n, n))
        i = 0
        mags = spectrum(n, rng, True)
        while i < n:
            if i + 1 < n and rng.random() < 0.5:
                r, th = abs(mags[i]), rng.uniform(0.3, 2.8)
                D[i:i + 2, i:i + 2] = r * np.array([[np.cos(th), np.sin(th)], [-np.sin(th), np.cos(th)]])
                i += 2
            else:
                D[i, i] = mags[i]
                i += 1
        E = rng.standard_normal((n, n))
        E = E / max(np.linalg.norm(E, 2), 1e-12) * 0.5
        X = np.eye(n) + E
        M = X @ D @ np.linalg.inv(X)
        condx = float(np.linalg.cond(X))
        A = ops.Dense(M)
    elif kind == "complex":
        lam = spectrum(n, rng, False, case.get("tiny")) * np.exp(1j * rng.uniform(-np.pi, np.pi, n))
        M, X = KR.nonnormal(lam, seed, True, cond_x=4.0)
        condx = float(np.linalg.cond(X))
        A = ops.Dense(M)
    elif kind == "diag":
        d = spectrum(n, rng, True, case.get("tiny"))
        M = np.diag(d)
        A = ops.Diagonal(d.copy())
    elif kind in ("tri_lower", "tri_upper"):
        d = spectrum(n, rng, True)
        U = np.triu(rng.integers(-2, 3, size=(n, n)).astype(float), 1) * 0.5
        if n >= 3 and rng.random() < 0.4:  # banded patterns: the first off-diagonal vanishes, entries further out do not
            U = U - np.diag(np.diag(U, 1), 1)
            U[0, n - 1] = 1.5
        U = U + np.diag(d)
        if case["cplx"]:  # complex triangular: complex entries above the diagonal and unit-modulus phases on it
            U = U * (1 + 0.5j) + np.diag(d * (np.exp(1j * rng.uniform(-1, 1, n)) - 1))
        M = U.T.copy() if kind == "tri_lower" else U
        A = ops.Triangular(M.copy(), lower=kind == "tri_lower")
        condx = float(np.linalg.cond(np.linalg.eig(M)[1]))
    else:
        M = np.eye(n)
        A = ops.Identity((n, n), np.float64)
    return A, M, condx


def make_alg(case, n):
    import cola
    L = cola.linalg
    cap = n if case["cap"] == "n" else n + 3
    kt = 0.0 if case.get("ktol0") else 1e-12
    kw = {}
    if case.get("start") and case["alg"] in ("Lanczos", "Arnoldi"):
        rs = np.random.default_rng(case["seed"] + 11)
        v = rs.standard_normal(n)
        kw["start_vector"] = {"same": v, "c64": (v + 1j * rs.standard_normal(n)).astype(np.complex64), "f32": v.astype(np.float32)}[case["start"]]
    return {"omitted": None, "Auto": L.Auto(), "Eig": L.Eig(), "Eigh": L.Eigh(), "Lanczos": L.Lanczos(max_iters=cap, tol=kt, **kw),
            "Arnoldi": L.Arnoldi(max_iters=cap, tol=kt, **kw), "PowerIteration": L.PowerIteration(tol=1e-12, max_iter=3000)}[case["alg"]]


def select_ok(vals, w, which, tol):
    """vals is an admissible answer for the k eigenvalues of largest/smallest magnitude of spectrum w (ties: either)."""
    k = len(vals)
    order = np.argsort(np.abs(w))
    if which == "LM":
        order = order[::-1]
    ws = w[order]
    # admissible pool: everything strictly inside the cut plus ties at the cut magnitude
    cut = np.abs(ws[k - 1])
    pool = [x for x in ws if (np.abs(x) >= cut * (1 - 1e-9) if which == "LM" else np.abs(x) <= cut * (1 + 1e-9))]
    must = [x for x in ws if (np.abs(x) > cut * (1 + 1e-9) if which == "LM" else np.abs(x) < cut * (1 - 1e-9))]
    pool = list(pool)
    used = []
    for v in vals:
        if not pool:
            return False, "more values than admissible eigenvalues"
        d = [abs(v - p) for p in pool]
        j = int(np.argmin(d))
        if d[j] > tol:
            return False, f"value {v} is not among the {k} {'largest' if which == 'LM' else 'smallest'}-magnitude eigenvalues {np.round(ws[:k + 1], 4)}"
        used.append(pool.pop(j))
    for m in must:
        if min(abs(m - u) for u in used) > tol:
            return False, f"eigenvalue {m} belongs to the requested set but was not returned"
    return True, ""


def check(case, out):
    import cola
    L = cola.linalg
    DOMINANT[0] = bool(case.get("dominant"))
    A, M, condx = build(case)
    if case.get("sscale") and case["kind"] not in ("eye", ):
        f = 10.0 ** case["sscale"]
        ann = set(A.annotations)
        A, M = f * A, f * M
        out.label("sscale:%d" % case["sscale"])
    n, k = case["n"], case["k"]
    alg = make_alg(case, n)
    which = "LM" if case["which"] == "omitted" else case["which"]
    fn = case["fn"]
    herm = bool(np.abs(M - M.conj().T).max(initial=0) <= 1e-12 * max(np.abs(M).max(initial=0), 1e-300))  # (relative: operators of scale 1e-9 are generated)
    out.label("kind:" + case["kind"], "alg:" + case["alg"], "which:" + case["which"], "fn:" + fn, "k:" + ("1" if k == 1 else "n" if k == n else "mid"),
              "cap:" + case["cap"])
    indefinite = herm and np.linalg.eigvalsh(M).min() < 0
    out.nontrivial = indefinite or not herm or np.iscomplexobj(M) or k < n or case["cap"] != "n"
    site = f"{fn}:{type(A).__name__.split('[')[0]}:{case['alg']}:{which}"
    if case["kind"].startswith("tri"):
        site += ":" + case["kind"]
    scale = max(1.0, np.linalg.norm(M, 2)) if not case.get("sscale") else np.linalg.norm(M, 2)
    w = np.linalg.eigvals(M)
    extra = {} if alg is None else {"alg": alg}
    if case.get("start") and case["alg"] in ("Lanczos", "Arnoldi"):
        out.label("start:" + case["start"])
    if case.get("warm_small") and alg is not None and n >= 3 and not case.get("start"):
        # the same algorithm object was used before, on a smaller operator
        try:
            small = cola.SelfAdjoint(cola.ops.Dense(np.diag(np.arange(1.0, n - 1.0)) + 0.25 * np.ones((n - 2, n - 2))))
            L.eig(small, 1, "LM", alg)
            out.label("alg_object_reused")
        except Exception as e:
            out.notes.append("warm:" + oracle.exc_man(e))
    try:
        if fn == "eig":
            if case["which"] == "omitted":
                vals, V = L.eig(A, k, **extra)
            else:
                vals, V = L.eig(A, k, which, *([alg] if alg is not None else []))
        else:
            e = getattr(L, fn)(A, **extra)
            vals, V = np.asarray(e).reshape(1), None
            k = 1
            which = "LM" if fn == "eigmax" else "SM"
    except Exception as e:
        if oracle.is_contract_refusal(e):
            out.refusals += 1
            out.notes.append("refusal:" + oracle.exc_bucket(e)[1])
            return
        out.fail("call", site, oracle.exc_man(e), e)
        return
    vals = np.asarray(vals).reshape(-1)
    structural = type(A).__name__.split("[")[0] in ("Diagonal", "Identity", "Triangular")  # (a rescaled operator is a Product: no structural rule)
    power = case["alg"] == "PowerIteration" or (case["alg"] in ("omitted", "Auto") and k == 1 and which == "LM" and not structural)
    if power:
        # power iteration is only judged on real spectra with dominance ratio <= 0.5
        mags = np.sort(np.abs(w))[::-1]
        if np.iscomplexobj(M) or np.abs(w.imag).max() > 1e-12 or (len(mags) > 1 and mags[1] / mags[0] > 0.5):
            out.label("power:out_of_regime")
            out.inconclusive += 1
            return
    tol_pair = (1e-3 if power else 1e-6) * scale * condx
    if vals.shape[0] != k:
        out.fail("count", site, "count", f"{vals.shape[0]} values for k={k}")
        return
    # a double-precision operator is decomposed in double precision, whatever the precision of an explicit start vector
    if np.dtype(A.dtype) in (np.dtype(np.float64), np.dtype(np.complex128)) and vals.dtype in (np.dtype(np.float32), np.dtype(np.complex64)):
        out.fail("values", site, "precision_lost", f"eigenvalues returned as {vals.dtype} for a {np.dtype(A.dtype)} operator")
        return
    if not np.all(np.isfinite(vals)):
        out.fail("values", site, "nonfinite", str(vals[:4]))
        return
    if case["kind"] != "eye":
        ok, why = select_ok(vals, w, which, tol_pair)
        if not ok:
            out.fail("selection", site, "wrong_values", why)
    if V is None:
        return
    try:
        Vd = np.asarray(V.to_dense()) if hasattr(V, "to_dense") else np.asarray(V)
    except Exception as e:
        out.fail("vectors", site, oracle.exc_man(e), e)
        return
    if Vd.shape != (n, k):
        out.fail("vectors", site, "shape", f"{Vd.shape} expected {(n, k)}")
        return
    if not np.all(np.isfinite(Vd)):
        out.fail("vectors", site, "nonfinite", "")
        return
    nv = np.linalg.norm(Vd, axis=0)
    if np.any(nv < 1e-8):
        out.fail("vectors", site, "zero_vector", str(nv))
        return
    R = M @ Vd - Vd * vals[None, :]
    rel = np.linalg.norm(R, axis=0) / nv
    if np.max(rel) > tol_pair:
        out.fail("pairs", site, "not_eigenpair", f"max |A v - lam v|/|v| = {np.max(rel):.3e} > {tol_pair:.1e} (k={k}, n={n})")
    s = np.linalg.svd(Vd / nv, compute_uv=False)
    if s[-1] / s[0] < 1e-6 / max(condx, 1):
        out.fail("vectors", site, "dependent", f"sigma_min/sigma_max = {s[-1] / s[0]:.3e}")
    if herm and case["kind"] != "eye":
        G = (Vd / nv).conj().T @ (Vd / nv)
        if np.abs(G - np.eye(k)).max() > 1e-6:
            out.fail("vectors", site, "not_orthogonal", f"|V^H V - I| = {np.abs(G - np.eye(k)).max():.3e}")
