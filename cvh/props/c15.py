"""C15 - Arnoldi returns an orthonormal Krylov basis satisfying the Arnoldi relation."""
import numpy as np
from hypothesis import strategies as st

from cvh import krylov_ref as KR, oracle
from cvh.props import c13

ID = "C15"
LEVEL = "exploration"
BUDGET = {"quick": 6000, "thorough": 80000}
WALL = {"quick": 240, "thorough": 2700}
MIN_CASES = {"quick": 600, "thorough": 6000}
RULE = ("Hypothesis draws a square operator (real non-symmetric with conjugate pairs, complex, normal / non-normal; n 1..30 "
        "quick / ..200 thorough), a start vector (generic / in a g-dimensional invariant subspace = breakdown / batched), "
        "max_iters in 1..n+8 (the padded regime matters: Arnoldi() defaults to 1000) and a tolerance. Oracle with m' = "
        "min(m,n): M Q[:,:m'] = Q[:,:m'+1] H[:m'+1,:m']; H upper Hessenberg with real sub-diagonal >= 0; Q[:,0] = v/|v|; the "
        "first min(m'+1, g) columns orthonormal (columns past a breakdown are not constrained); for m > n the result equals "
        "the m = n result in the leading block and is exactly zero elsewhere; arnoldi_eigs with max_iters >= n returns the "
        "spectrum of M as a multiset (no spurious values); batched == per column. Non-trivial: m < n with non-normal A, "
        "m > n, breakdown, complex, batched. The operator object is Dense, or (2 in 7) Identity / Transpose(Identity) / "
        "Product(I,I) / Kronecker(I,I) / ScalarMul / Diagonal / Sum(I, Dense) / Product(I, Dense) / Permutation; one case in "
        "six uses tol = 0."
        " Further: Hermitian operators declared SelfAdjoint / PSD with 12..30 rows, pbar=True, entries ~1e-8 in single"
        " precision with tol 1e-12; the number of well-defined steps is computed with cola's own stopping rules"
        " (relative to the first sub-diagonal entry, 1e4 eps of |A q|, absolute clip)."
        " Round 5: sub-checks eigs_singular (lower-bidiagonal / nilpotent operators started from e_1) and repeat_large"
        " (two factorisations with max_iters 320..520, the first re-checked after the second).")
ASSUMPTIONS = [
    "'m+1 orthonormal columns' is read as: the first min(m'+1, g) columns are orthonormal - no implementation can extend an exhausted Krylov space canonically",
    "tolerances relative to max(1e-10, 10 tol) * max(1,|M|) because cola clips normalisations at tol/2",
]
SUBS = ["relation", "relation", "relation", "padded", "eigs", "batched", "repeat_large", "eigs_singular"]


@st.composite
def cases(draw, tier):
    sub = draw(st.sampled_from(SUBS))
    nmax = 30 if tier == "quick" else 200
    n = draw(st.integers(1, 10)) if draw(st.integers(1, 4)) > 1 else draw(st.integers(1, nmax))
    g = draw(st.integers(1, n))
    case = {"sub": sub, "n": n, "kind": draw(st.sampled_from(["real_pairs", "complex", "normal", "real_spd_like"])),
            "seed": draw(st.integers(0, 10**6)), "nrhs": 0, "rhs": draw(st.sampled_from(["generic", "generic", "grade"])), "g": g,
            "x0": "zero", "m": draw(st.integers(1, n + 8)), "tol_exp": draw(st.sampled_from([-12, -10, -8, -6])),
            "batch": draw(st.integers(2, 3)), "shift_exp": draw(st.sampled_from([0, 0, 0, 3, 6, 8])), "cstart": draw(st.integers(1, 5)) == 1,
            "single": draw(st.integers(1, 6)) == 1,
            # the operator object: mostly Dense, else a structured operator of the same kind of matrix (Identity-like
            # operators hand their argument back, Diagonal / ScalarMul / Sum / Product have their own product code)
            "op": draw(st.sampled_from(["dense"] * 5 + ["eye", "eye_T", "eye_prod", "eye_kron", "smul", "diag", "sum_eye", "prod_eye", "perm"])),
            "tol_zero": draw(st.integers(1, 6)) == 1,
            # Hermitian operators may carry a (true) SelfAdjoint / PSD declaration
            "annot": draw(st.sampled_from([None, None, "SelfAdjoint", "PSD"])), "pbar": draw(st.integers(1, 8)) == 1}
    if case["annot"] and draw(st.booleans()):
        case["kind"], case["n"] = "normal", draw(st.integers(12, nmax))
        case["g"] = min(case["g"], case["n"])
        case["m"] = draw(st.integers(8, case["n"] + 8))
        n = case["n"]
    if sub == "padded":
        case["m"] = draw(st.integers(n + 1, n + 8))
    if sub == "eigs":
        case["m"] = draw(st.integers(n, n + 8))
    if sub == "batched":
        case["nrhs"] = case["batch"]
        if draw(st.integers(1, 3)) == 1:
            # round 6: every member of the batch on its own scale (the Krylov basis of a member does not depend on the
            # magnitude of its start vector, let alone on the other members')
            case["vscale"] = [draw(st.sampled_from([-20, -17, -8, 0, 0, 6, 12])) for _ in range(case["batch"])]
    return case


def strategy(tier):
    return cases(tier)


def dense(op):
    return np.asarray(op.to_dense()) if hasattr(op, "to_dense") else np.asarray(op)


def verify(out, sub, site, M, v, Qd, Hd, m, tol, g):
    n = M.shape[0]
    mp = min(m, n)
    eps = float(np.finfo(Qd.dtype).eps) if Qd.dtype.kind in "fc" else 2.2e-16
    rel = max(1e-10, 10 * tol, 100 * eps)
    scale = max(1.0, np.abs(M).max())
    if not (np.all(np.isfinite(Qd)) and np.all(np.isfinite(Hd))):
        out.fail(sub, site, "nonfinite", "Q or H")
        return False
    if Qd.shape[0] != n or Qd.shape[1] < mp + 1 or Hd.shape[0] < mp + 1 or Hd.shape[1] < mp:
        out.fail(sub, site, "shape", f"Q {Qd.shape} H {Hd.shape} for m={m}, n={n}")
        return False
    e = np.abs(Qd[:, 0] - v / np.linalg.norm(v)).max()
    if e > max(1e-10, 10 * eps):
        out.fail(sub, site, "first_column", f"{e:.3e}")
    # columns past a breakdown are not constrained (see ASSUMPTIONS): the relation is judged on the steps actually defined
    kr = min(mp, g)
    Rl = M @ Qd[:, :kr] - Qd[:, :mp + 1] @ Hd[:mp + 1, :kr]
    e = np.abs(Rl).max(initial=0)
    if e > 1e3 * rel * scale:
        out.fail(sub, site, "relation", f"|M Q_k - Q_(m+1) H_k| = {e:.3e} over the first {kr} columns (m'={mp}, n={n}, g={g})")
    if np.abs(np.tril(Hd[:mp + 1, :mp], -2)).max(initial=0) > 0:
        out.fail(sub, site, "not_hessenberg", "")
    sd = np.diag(Hd[:mp + 1, :mp], -1)
    if sd.size and (np.abs(np.imag(sd)).max() > 1e-12 * scale or np.min(np.real(sd)) < -1e-12 * scale):
        out.fail(sub, site, "subdiagonal", f"{sd[:6]}")
    nrm = np.linalg.norm(Qd, axis=0)
    bad = (nrm > 1e-300) & (np.abs(nrm - 1) > max(1e-8, 20 * eps))
    if np.any(bad):  # every column is either a unit vector or zero padding, never amplified noise
        out.fail(sub, site, "column_norm", f"column norms {nrm[bad][:4]} at {np.nonzero(bad)[0][:4]} (neither 0 nor 1)")
    k = min(mp + 1, g)
    e = np.abs(Qd[:, :k].conj().T @ Qd[:, :k] - np.eye(k)).max()
    if e > max(1e-9, 50 * eps * max(k, 1)):
        out.fail(sub, site, "not_orthonormal", f"|Q^H Q - I| = {e:.3e} over the first {k} columns (g={g}, m'={mp})")
    return True


def loose_grade(M, v, tol):
    """Number of Arnoldi steps that are well defined for cola's own stopping rules: the remainder r_j of step j (norm after
    two orthogonalisation passes) must stay above (a) 100 tol r_1 - cola stops relative to its first sub-diagonal entry -,
    (b) 1e4 eps |A q_j| - below that the remainder is rounding noise of the working precision - and (c) 100 tol absolutely
    (cola's normalisation clip tol / 2). Demands on later columns are waived."""
    n = M.shape[0]
    eps = float(np.finfo(M.dtype).eps) if M.dtype.kind in "fc" else 2.2e-16
    dt = np.result_type(M.dtype, v.dtype, np.float64)
    V = np.zeros((n, 0), dtype=dt)
    w = v.astype(dt) / max(np.linalg.norm(v), 1e-300)
    r1 = None
    for j in range(n + 1):
        V = np.concatenate([V, w[:, None]], axis=1)
        if j == n:
            break
        aq = M.astype(dt) @ w
        naq = np.linalg.norm(aq)
        for _ in range(2):
            aq = aq - V @ (V.conj().T @ aq)
        r = np.linalg.norm(aq)
        r1 = r if r1 is None else r1
        if r <= max(100 * tol * r1, 1e4 * eps * naq, 100 * tol, 1e-300) or V.shape[1] == n:
            break
        w = aq / r
    return V.shape[1]


def make_operator(kind, M, seed):
    """(cola operator, its matrix): Dense(M), or a structured operator of M's size and dtype (M is then replaced)."""
    import cola
    ops = cola.ops
    n, dt = M.shape[0], M.dtype
    eye = np.eye(n, dtype=dt)
    I = ops.Identity((n, n), dt)
    if kind == "eye":
        return I, eye
    if kind == "eye_T":
        return ops.Transpose(I), eye
    if kind == "eye_prod":
        return ops.Product(I, I), eye
    if kind == "eye_kron" and n >= 4 and any(n % d == 0 for d in range(2, n)):
        a = [d for d in range(2, n) if n % d == 0][0]
        return ops.Kronecker(ops.Identity((a, a), dt), ops.Identity((n // a, n // a), dt)), eye
    if kind == "smul":
        return ops.ScalarMul(2.5, (n, n), dtype=dt), 2.5 * eye
    if kind == "diag":
        d = np.diag(M).copy()
        return ops.Diagonal(d), np.diag(d)
    if kind == "sum_eye":
        return ops.Sum(I, ops.Dense(M)), eye + M
    if kind == "prod_eye":
        return ops.Product(I, ops.Dense(M)), M
    if kind == "perm":
        p = np.random.default_rng(seed + 3).permutation(n)
        P = ops.Permutation(p, dtype=dt)
        return P, np.asarray(P.to_dense())
    return ops.Dense(M), M


def check(case, out):
    import cola
    from cola.linalg.decompositions.arnoldi import arnoldi, arnoldi_eigs
    sub = case["sub"]
    A_, B, X0, condx = c13.build(case)
    M = A_
    if case.get("shift_exp"):  # strongly shifted operator s I + N: every Arnoldi step cancels heavily
        M = M + (10.0 ** case["shift_exp"]) * np.eye(M.shape[0])
        out.label("shifted")
    if case.get("cstart") and not np.iscomplexobj(M) and case["sub"] != "batched":  # complex start vector, real operator
        rs = np.random.default_rng(case["seed"] + 9)
        B = B.astype(np.complex128) * (1 + 0.5j) + (1j * rs.standard_normal(B.shape) if case["rhs"] == "generic" else 0)
        out.label("complex_start_real_operator")
    if case.get("single") and not case.get("shift_exp"):
        M = M.astype(np.complex64 if np.iscomplexobj(M) else np.float32)
        B = B.astype(np.complex64 if np.iscomplexobj(B) else np.float32)
        out.label("single_precision")
        if case["seed"] % 3 == 0 and not case.get("tol_zero") and case["tol_exp"] <= -12:
            # a small-scale operator (entries ~1e-8) with a tolerance far below that scale: nothing but the scale changes
            M = (M * M.dtype.type(1e-8)).astype(M.dtype)
            out.label("small_scale")
    n, m = case["n"], case["m"]
    tol = 0.0 if case.get("tol_zero") else 10.0 ** case["tol_exp"]
    vs = [B] if B.ndim == 1 else [B[:, j] for j in range(B.shape[1])]
    if case.get("vscale") and sub == "batched" and B.dtype in (np.float64, np.complex128):
        vs = [vv * 10.0 ** e for vv, e in zip(vs, case["vscale"])]
        out.label("batched:member_scales")
    v = vs[0]
    A, M = make_operator(case.get("op", "dense"), M, case["seed"])
    if case.get("annot") and type(A).__name__ == "Dense" and np.allclose(M, M.conj().T):
        ann = case["annot"] if np.all(np.linalg.eigvalsh((M + M.conj().T) / 2) > 0) else "SelfAdjoint"
        A = getattr(cola, ann)(A)
        out.label("annotated:" + ann)
    out.label("op:" + case.get("op", "dense"), "tol:0" if tol == 0 else "tol>0")
    scale = max(1.0, np.abs(M).max())
    g_tight = KR.krylov_basis(lambda q: M @ q, v, n + 1, tol=1e-11).shape[1]
    # a breakdown is recognisable only down to the working precision: in single precision the residual of an exhausted
    # Krylov space is ~1e-4 relative, so the grade is judged at 1e4 eps (1.2e-3 in float32, 2e-12 in float64)
    g = loose_grade(M, v, tol)
    out.label("sub:" + sub, "kind:" + case["kind"], "start:" + case["rhs"], "m:" + ("<n" if m < n else "=n" if m == n else ">n"),
              "breakdown" if g < n else "full_grade")
    site = f"arnoldi:{case['rhs']}:{'m>n' if m > n else 'm<=n'}"
    out.nontrivial = (m < n and case["kind"] != "normal") or m > n or g < n or np.iscomplexobj(M) or sub == "batched"

    def call(fn):
        try:
            return fn()
        except Exception as e:
            out.fail(sub, site, oracle.exc_man(e), e)
            return None

    if sub == "eigs_singular":
        # a singular operator whose Krylov sequence from e_1 ends in the null space without an earlier breakdown: lower
        # bidiagonal with a zero last diagonal entry (or the nilpotent shift): H then has a genuinely zero last column, and
        # arnoldi_eigs with >= n steps still returns all n eigenvalues (the diagonal)
        rs = np.random.default_rng(case["seed"])
        nn = max(2, min(n, 8))
        d = (1.0 + np.arange(nn) + 0.3 * rs.random(nn)) * (0.0 if case["seed"] % 3 == 0 else 1.0)
        d[-1] = 0.0
        Mb = np.diag(d) + np.diag(1.0 + rs.random(nn - 1), -1)
        e1 = np.zeros(nn)
        e1[0] = 1.0
        res = call(lambda: arnoldi_eigs(cola.ops.Dense(Mb), e1.copy(), max_iters=nn + case["seed"] % 4, tol=tol))
        if res is None:
            return
        th = np.sort_complex(np.asarray(res[0]))
        w = np.sort_complex(np.linalg.eigvals(Mb))
        if th.shape[0] != nn:
            out.fail(sub, "arnoldi:eigs:singular", "spurious_or_missing_eigenvalues", f"{th.shape[0]} values returned for a {nn} x {nn} operator: {th[:4]}")
        elif np.abs(np.sort(np.abs(th)) - np.sort(np.abs(w))).max() > 1e-6 * max(1.0, np.abs(w).max()):
            out.fail(sub, "arnoldi:eigs:singular", "wrong_spectrum", f"{th} vs {w}")
        return

    if sub == "repeat_large":
        # the padded regime of the default cap (Arnoldi() runs with max_iters = 1000): two factorisations with identical
        # shapes; the first result must still be the first factorisation after the second call
        big = 320 + case["seed"] % 200
        v2 = np.random.default_rng(case["seed"] + 5).standard_normal(n).astype(v.real.dtype if not np.iscomplexobj(v) else v.dtype)
        r1 = call(lambda: arnoldi(A, v.copy(), max_iters=big, tol=max(tol, 1e-12)))
        if r1 is None:
            return
        Q1, H1 = dense(r1[0]).copy(), dense(r1[1]).copy()
        r2 = call(lambda: arnoldi(A, v2.copy(), max_iters=big, tol=max(tol, 1e-12)))
        if r2 is None:
            return
        Q1b, H1b = dense(r1[0]), dense(r1[1])
        if not (np.array_equal(Q1, Q1b) and np.array_equal(H1, H1b)):
            out.fail(sub, "arnoldi:repeat_large", "earlier_result_changed", f"the factorisation returned by the first call changed after a second call (max_iters={big}, n={n})")
            return
        verify(out, sub, site, M, v, Q1b, H1b, big, max(tol, 1e-12), min(g, g_tight))
        return

    if sub in ("relation", "padded"):
        if case.get("pbar"):  # the progress-bar option runs the same iteration through another loop wrapper
            out.label("pbar")

            def with_bar():
                with oracle.quiet():
                    return arnoldi(A, v.copy(), max_iters=m, tol=tol, pbar=True)
            res = call(with_bar)
        else:
            res = call(lambda: arnoldi(A, v.copy(), max_iters=m, tol=tol))
        if res is None:
            return
        Q, H, info = res
        Qd, Hd = dense(Q), dense(H)
        if not verify(out, sub, site, M, v, Qd, Hd, m, tol, min(g, g_tight)):
            return
        if m > n:
            res2 = call(lambda: arnoldi(A, v.copy(), max_iters=n, tol=tol))
            if res2 is None:
                return
            Q2, H2 = dense(res2[0]), dense(res2[1])
            if Qd.shape != (n, m + 1) or Hd.shape != (m + 1, m):
                out.fail(sub, site, "padded_shape", f"Q {Qd.shape} H {Hd.shape} for m={m}")
                return
            if not (np.array_equal(Qd[:, :n + 1], Q2) and np.array_equal(Hd[:n + 1, :n], H2)):
                d = max(np.abs(Qd[:, :n + 1] - Q2).max(), np.abs(Hd[:n + 1, :n] - H2).max())
                if d > 1e-9 * scale:
                    out.fail(sub, site, "padded_differs", f"leading block differs from the m = n run by {d:.3e}")
            rest = max(np.abs(Qd[:, n + 1:]).max(initial=0), np.abs(Hd[n + 1:, :]).max(initial=0), np.abs(Hd[:, n:]).max(initial=0))
            if rest != 0:
                out.fail(sub, site, "padding_nonzero", f"max |entry| outside the n-step block = {rest:.3e}")
        return

    if sub == "eigs":
        res = call(lambda: arnoldi_eigs(A, v.copy(), max_iters=m, tol=tol))
        if res is None:
            return
        th, V, info = res
        th = np.asarray(th)
        if g < n or g_tight < n:
            out.label("eigs:breakdown_skipped")
            return  # with a breakdown only part of the spectrum is reachable: nothing demanded here
        w = np.linalg.eigvals(M)
        if not np.all(np.isfinite(th)):
            out.fail(sub, site, "nonfinite", "")
            return
        # multiset comparison: greedy matching
        if th.shape[0] != n:
            out.fail(sub, site, "spurious_eigenvalues", f"{th.shape[0]} values returned for an {n} x {n} operator (max_iters={m}); extra: {sorted(np.abs(th))[:3]}")
            return
        used = np.zeros(n, dtype=bool)
        worst = 0.0
        for t in th:
            d = np.abs(w - t)
            d[used] = np.inf
            j = int(np.argmin(d))
            used[j] = True
            worst = max(worst, d[j])
        if worst > 1e-6 * scale * condx:
            out.fail(sub, site, "wrong_spectrum", f"max matching distance {worst:.3e}")
        return

    if sub == "batched":
        Vb = np.stack(vs, axis=1)
        res = call(lambda: arnoldi(A, Vb.copy(), max_iters=m, tol=tol))
        if res is None:
            return
        Qb, Hb, _ = res
        try:
            xnp = A.xnp
            Qd = np.asarray(xnp.vmap(Qb.__class__.to_dense)(Qb))
            Hd = np.asarray(xnp.vmap(Hb.__class__.to_dense)(Hb))
        except Exception as e:
            out.fail(sub, site, "batched_to_dense:" + oracle.exc_man(e), e)
            return
        grades = [loose_grade(M, vv, tol) for vv in vs]
        if not (np.all(np.isfinite(Qd)) and np.all(np.isfinite(Hd))):
            out.fail(sub, site, "nonfinite", "batched")
            return
        if min(grades) < min(m, n):
            out.label("batched:some_break_down")
            # every member is its own factorisation: relation, Hessenberg form, first column, orthonormality up to its grade
            for j, vv in enumerate(vs):
                gj = min(grades[j], KR.krylov_basis(lambda q: M @ q, vv, n + 1, tol=1e-11).shape[1])
                if not verify(out, sub, site + f":member", M, vv, Qd[j], Hd[j], m, tol, gj) or out.failures:
                    return
            return
        for j, vv in enumerate(vs):
            Qj, Hj, _ = arnoldi(A, vv.copy(), max_iters=m, tol=tol)
            qd, hd = dense(Qj), dense(Hj)
            h = min(8, min(m, n), max(min(grades) - 1, 1))  # (the vector at the edge of the Krylov space is the least determined)
            bt = max(1e-8, 1e4 * float(np.finfo(qd.dtype).eps))
            # a strongly shifted operator c I + N determines its Arnoldi vectors only to ~eps c / |N| per step
            bt *= max(1.0, 10.0 ** (case.get("shift_exp", 0) - 4))
            if Qd[j].shape != qd.shape or np.abs(Qd[j][:, :h] - qd[:, :h]).max() > bt or np.abs(Hd[j][:h, :h] - hd[:h, :h]).max() > bt * scale:
                out.fail(sub, site, "batched_differs", f"member {j}")
                return
