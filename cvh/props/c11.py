"""C11 - cholesky and plu return structured factors that reproduce the operator."""
import numpy as np
from hypothesis import strategies as st

from cvh import gen, ir as IR, oracle, treeprop as TP

ID = "C11"
LEVEL = "exploration"
BUDGET = {"quick": 12000, "thorough": 200000}
WALL = {"quick": 220, "thorough": 2400}
MIN_CASES = {"quick": 1500, "thorough": 15000}
RULE = ("Hypothesis draws positive-definite (cholesky) or non-singular (plu; incl. matrices that need pivoting, negative and "
        "complex diagonals) operator trees over Dense, Identity, Diagonal, ScalarMul, Kronecker (2-3 factors of unequal size), "
        "BlockDiag with multiplicities and their nestings, with and without PSD declarations, real and complex. Oracle "
        "(validity predicate): L lower-triangular with strict upper part exactly 0 and L L^H = M; P a permutation matrix, L "
        "lower, U upper, P L U = M (backward tolerance); structure: Kronecker/BlockDiag inputs give the same composite kind "
        "with the same arity/multiplicities, Diagonal/ScalarMul/Identity inputs give factors without Dense/Triangular nodes, "
        "and no dense node of the result is larger than the largest dense leaf of the input. Non-trivial: a structural rule, "
        "a complex input or a pivoting case."
        " Further: rows of dense leaves graded over 10^-5..10^5 (plu), block diagonals of 3-4 blocks with equal-sized"
        " dense blocks that are not adjacent."
        " Round 5: two blocks that are views (B, B^T) of one buffer.")
ASSUMPTIONS = [
    "reconstruction tolerance: ||F - M||_max <= 1e3 * eps * n * ||M||_max with eps of the coarsest dtype in the tree",
    "inputs are positive definite / non-singular by construction (B B^H + cI, diagonally dominant integer matrices, row permutations of those)",
]
AVOID = set()
KINDS = {"dense", "matmat", "lazify", "diag", "smul", "eye", "bd", "kron", "ann", "perm"}


def configure(tier, opts):
    AVOID.clear()
    AVOID.update(TP.load_avoid(ID, opts, base=("dup_index", )))


@st.composite
def cases(draw, tier):
    fn = draw(st.sampled_from(["cholesky", "plu"]))
    g = gen.TraitGen(draw, avoid=AVOID | {"perm", "tri", "tridiag", "T", "prod", "scale", "neg", "fft", "hh"}, kinds=KINDS)
    n = g.integer(1, 12 if tier == "quick" else 16)
    depth = g.pick([0, 1, 1, 2, 2, 3])
    if fn == "cholesky":
        tree = g.t_pd(n, depth)
    else:
        tree = g.t_inv(n, depth)
        if tree["k"] in ("dense", "matmat", "lazify") and g.boolean():  # force pivoting: permute the rows
            a = IR.dec(tree["a"])
            p = list(draw(st.permutations(list(range(n)))))
            tree = dict(tree, a=gen.enc(a[p]))
    # badly scaled inputs: every float payload of the tree multiplied by a power of ten (factorisations are scale covariant)
    if draw(st.integers(1, 8)) == 1:
        # block diagonal of three or more blocks in which equal-sized dense blocks are NOT adjacent (a, b, a[, c]);
        # real and complex blocks mixed, optional multiplicities
        a, b = g.integer(1, 3), g.integer(1, 4)
        mk = (lambda m: g.t_pd(m, 0)) if fn == "cholesky" else (lambda m: g.t_inv(m, 0))
        blocks = [g._dense_like((g.pd_matrix if fn == "cholesky" else g.dd_matrix)(a, g.dtype()), g.dtype(("f8", "c16")), kinds=("dense", )), mk(b),
                  g._dense_like((g.pd_matrix if fn == "cholesky" else g.dd_matrix)(a, "f8"), "f8", kinds=("dense", ))]
        if g.boolean():
            blocks.append(mk(g.integer(1, 3)))
        tree = {"k": "bd", "ch": blocks, "mult": [g.integer(1, 2) for _ in blocks] if g.boolean() else None}
        if g.boolean():
            # round 6: the very same operator object at two positions that are not adjacent (M, N, M[, c])
            blocks[2] = blocks[0]
            tree["share"] = [[0, 2]]
    if draw(st.integers(1, 10)) == 1:
        # two blocks that are different VIEWS of one buffer (B and B^T): same address, shape and dtype, different strides
        m = g.integer(2, 4)
        dt = g.pick(["f8", "c16", "c16"])
        B = g.pd_matrix(m, dt) if fn == "cholesky" else g.dd_matrix(m, dt)
        tree = {"k": "viewpair", "a": gen.enc(np.ascontiguousarray(B).astype(gen.NPDT[dt]))}
    # graded rows (plu): row i of every dense leaf multiplied by 10^e_i, e_i in -5..5 (partial pivoting is normwise stable)
    grade = [draw(st.integers(-5, 5)) for _ in range(6)] if fn == "plu" and draw(st.integers(1, 4)) == 1 else None
    return {"fn": fn, "tree": tree, "scale_exp": draw(st.sampled_from([0, 0, 0, -12, -6, 6, -20])), "row_grade": grade}


def strategy(tier):
    return cases(tier)


def cola_nodes(op):
    return list(TP.walk_ops(op))


def max_dense(op):
    """largest number of entries held by a Dense/Triangular node or dense array attribute reachable from op."""
    from cola.ops import Dense
    from cola.ops import LinearOperator
    m = 0
    for o in TP.walk_ops(op):
        if type(o) is LinearOperator:  # generic matmat-defined operator: its payload lives in a closure
            m = max(m, int(np.prod(o.shape)))
        for v in vars(o).values():
            if isinstance(v, np.ndarray) and v.ndim == 2:
                m = max(m, v.size)
    return m


def structure_check(out, site, A, F, name):
    from cola.ops import BlockDiag, Dense, Diagonal, Identity, Kronecker, ScalarMul, Triangular
    kind = type(A).__name__.split("[")[0]
    if isinstance(A, Kronecker):
        if not isinstance(F, Kronecker) or len(F.Ms) != len(A.Ms):
            out.fail("structure", site, "kronecker_lost", f"{name} is {F!r} for input {A!r}")
    elif isinstance(A, BlockDiag):
        if not isinstance(F, BlockDiag) or list(F.multiplicities) != list(A.multiplicities) or len(F.Ms) != len(A.Ms):
            out.fail("structure", site, "blockdiag_lost", f"{name} is {F!r} for input {A!r}")
    elif isinstance(A, (Diagonal, ScalarMul, Identity)):
        bad = [o for o in TP.walk_ops(F) if isinstance(o, (Dense, Triangular))]
        if bad:
            out.fail("structure", site, "densified", f"{name} of {kind} contains {bad[0]!r}")
    lim = max(max_dense(A), 1)
    if max_dense(F) > lim:
        out.fail("structure", site, "bigger_dense", f"{name} holds a dense array of {max_dense(F)} entries > largest input leaf {lim}")


def rescale(ir, f):
    """copy of the IR with every dense / diagonal float payload multiplied by f (f8/c16 leaves only)."""
    out = {}
    for k, v in ir.items():
        if k == "ch":
            out[k] = [rescale(c, f) for c in v]
        elif isinstance(v, dict) and "dt" in v and "v" in v and v["dt"] in ("f8", "c16") and ir["k"] in ("dense", "matmat", "lazify", "diag"):
            out[k] = IR.enc(IR.dec(v) * f)
        else:
            out[k] = v
    return out


def grade_rows(ir, exps):
    """copy of the IR with row i of every dense-like f8/c16 payload multiplied by 10^exps[i mod len]."""
    out = {}
    for k, v in ir.items():
        if k == "ch":
            out[k] = [grade_rows(c, exps) for c in v]
        elif isinstance(v, dict) and "dt" in v and "v" in v and v["dt"] in ("f8", "c16") and ir["k"] in ("dense", "matmat", "lazify") and k == "a":
            a = IR.dec(v)
            f = 10.0 ** np.array([exps[i % len(exps)] for i in range(a.shape[0])], dtype=float)
            out[k] = IR.enc(a * f[:, None])
        else:
            out[k] = v
    return out


def check(case, out):
    import cola
    from cola.linalg.decompositions.decompositions import cholesky, plu
    fn, tree = case["fn"], case["tree"]
    if case.get("row_grade"):
        tree = grade_rows(tree, case["row_grade"])
        out.label("row_graded")
    if case.get("scale_exp"):
        tree = rescale(tree, 10.0 ** case["scale_exp"])
        out.label("scaled:1e%d" % case["scale_exp"])
    R = IR.denote(tree)
    n = R.shape[0]
    out.label(*TP.tree_labels(tree, R))
    out.label("fn:" + fn)
    A = IR.build(tree)
    kind = type(A).__name__.split("[")[0]
    site = f"{fn}:{kind}"
    M = R.M.astype(np.complex128)
    eps = max(IR.tree_eps(tree), oracle.eps_of(R.dtype))
    tol = 1e3 * eps * max(n, 1) * (np.abs(M).max(initial=0) if case.get("scale_exp") or case.get("row_grade") else max(1.0, np.abs(M).max(initial=0)))
    pivot = False
    if fn == "plu" and tree["k"] in ("dense", "matmat", "lazify"):
        a = np.abs(IR.dec(tree["a"]))
        pivot = bool(n > 1 and np.argmax(a[:, 0]) != 0)
        out.label("pivot:" + str(pivot))
    out.nontrivial = kind not in ("Dense", "LinearOperator") or R.dtype.kind == "c" or pivot

    def dense_of(op, name):
        try:
            D = np.asarray(op.to_dense())
        except Exception as e:
            out.fail("factor_dense", site, oracle.exc_man(e), f"{name}: {e}")
            return None
        if not np.all(np.isfinite(D)):
            out.fail("factor_dense", site, "nonfinite", f"{name} has non-finite entries")
            return None
        return D.astype(np.complex128)

    try:
        res = cholesky(A) if fn == "cholesky" else plu(A)
    except Exception as e:
        out.fail("call", site, oracle.exc_man(e), e)
        return
    if fn == "cholesky":
        L = res
        Ld = dense_of(L, "L")
        if Ld is None:
            return
        if Ld.shape != M.shape:
            out.fail("shape", site, "shape", f"L {Ld.shape}")
            return
        if np.abs(np.triu(Ld, 1)).max(initial=0) != 0:
            out.fail("triangular", site, "upper_nonzero", f"max |upper| = {np.abs(np.triu(Ld, 1)).max()}")
        err = np.abs(Ld @ Ld.conj().T - M).max(initial=0)
        if err > tol:
            out.fail("reconstruct", site, "value", f"|L L^H - M| = {err:.3g} > {tol:.3g}")
        structure_check(out, site, A, L, "L")
    else:
        if not (isinstance(res, tuple) and len(res) == 3):
            out.fail("call", site, "type", f"plu returned {type(res).__name__}")
            return
        P, L, U = res
        Pd, Ld, Ud = dense_of(P, "P"), dense_of(L, "L"), dense_of(U, "U")
        if Pd is None or Ld is None or Ud is None:
            return
        if not (Pd.shape == Ld.shape == Ud.shape == M.shape):
            out.fail("shape", site, "shape", f"{Pd.shape} {Ld.shape} {Ud.shape}")
            return
        isperm = np.all((Pd == 0) | (Pd == 1)) and np.all(Pd.sum(0) == 1) and np.all(Pd.sum(1) == 1)
        if not isperm:
            out.fail("permutation", site, "not_permutation", f"P = {Pd.real.tolist() if n <= 4 else '...'}")
        if np.abs(np.triu(Ld, 1)).max(initial=0) != 0:
            out.fail("triangular", site, "L_upper_nonzero", f"{np.abs(np.triu(Ld, 1)).max()}")
        if np.abs(np.tril(Ud, -1)).max(initial=0) != 0:
            out.fail("triangular", site, "U_lower_nonzero", f"{np.abs(np.tril(Ud, -1)).max()}")
        err = np.abs(Pd @ Ld @ Ud - M).max(initial=0)
        if err > tol:
            out.fail("reconstruct", site, "value", f"|P L U - M| = {err:.3g} > {tol:.3g}")
        for name, Fop in (("P", P), ("L", L), ("U", U)):
            structure_check(out, site, A, Fop, name)
