"""C06 - inv / solve return the solution of the linear system on every dispatch path."""
import numpy as np
from hypothesis import strategies as st

from cvh import gen, ir as IR, krylov_ref as KR, oracle, treeprop as TP

ID = "C06"
LEVEL = "exploration"
BUDGET = {"quick": 10000, "thorough": 200000}
WALL = {"quick": 240, "thorough": 2700}
MIN_CASES = {"quick": 1000, "thorough": 10000}
RULE = ("Hypothesis draws an invertible, well-conditioned operator tree over every kind with an inverse rule (Product, "
        "Kronecker, BlockDiag with multiplicities, Diagonal, ScalarMul, Identity, Permutation, Triangular, unitary kinds, "
        "dense) and their nestings, with/without PSD/Unitary declarations, real/complex, scalar multiples; an algorithm in "
        "{omitted, Auto(), LU, Cholesky and CG (PD trees), GMRES} with drawn tol and max_iters >= n; right-hand sides 1-D and "
        "2-D (real/complex). A few cases per run use matrix-free operators c I + U V^T of 1024-1100 rows to reach the large "
        "branch of Auto (CG / GMRES). Oracle: normwise backward error of inv(A,alg) @ b and solve(A,b,alg) (bitwise equal on "
        "direct paths); inv(A) is a LinearOperator of A's shape whose dense form equals inv(M); on non-iterative paths also "
        "inv(A).T, inv(A).H and b @ inv(A). Non-trivial: a structural rule, an explicit algorithm, or a complex/multi-column "
        "system. Right-hand sides are rescaled by 10^-6..10^6; the same inverse operator is then applied to a second "
        "right-hand side of the same shape and another scale, and to the first one again (each product must be a solution); "
        "the caller's right-hand side must be unchanged."
        " Further: operators rescaled by 10^+-3 and a Jacobi preconditioner for CG; a mid mode (dense systems of"
        " 30..60 rows under CG, CG+P, GMRES, Auto, Cholesky, LU, where the tolerance decides); operators within 1e-6"
        " of the identity / of a unit-diagonal triangular matrix."
        " Round 5: tridiagonal operators with vanishing leading minors (alone and inside Kronecker / BlockDiag /"
        " Product), scalar multiples of declared-unitary operators under T / H.")
ASSUMPTIONS = [
    "direct paths: |A x - b| <= 1e3 n eps (|A||x| + |b|) with eps of the coarsest dtype in the tree; inverse matrix to 1e3 eps cond; iterative paths: |A x - b| <= 20 tol |b| cond-free plus the direct bound",
    "in-contract refusals (AssertionError: CG / Cholesky on operators not declared PSD) are tallied, not failures",
    "cases contaminated by open finding F-C05-scalar (a scalar multiple falsely reporting PSD / SelfAdjoint changes the selected path) are counted inconclusive; a false Unitary report is harmless here (the Unitary rule of inv is never selected) and such cases are judged",
]
AVOID = set()
ALGS = ["omitted", "Auto", "LU", "Cholesky", "CG", "GMRES"]


def configure(tier, opts):
    AVOID.clear()
    AVOID.update(TP.load_avoid(ID, opts, base=("dup_index", )))


def awkward_tridiag(g, n, dt="f8"):
    """non-singular, well-conditioned tridiagonal matrices whose leading principal minors vanish (or nearly): elimination
    without row exchanges breaks down on them although the matrix is harmless"""
    n = max(2, n - n % 2)  # even size
    kind = g.pick(["zero_diag", "tiny_first", "ones_block"])
    al = np.ones(n - 1)
    ga = np.ones(n - 1)
    if kind == "zero_diag":       # path-graph / hopping matrix: eigenvalues 2 cos(k pi / (n + 1)), none zero for even n
        be = np.zeros(n)
    elif kind == "tiny_first":
        be = 3.0 + np.arange(n) % 2
        be[0] = 1e-11
    else:                          # leading block [[1, 1], [1, 1]]
        be = 3.0 + np.arange(n) % 2
        be[0] = be[1] = 1.0
    sg = np.where(np.arange(n - 1) % 3 == 0, -1.0, 1.0)
    return {"k": "tridiag", "al": gen.enc((al * sg).astype(gen.NPDT[dt])), "be": gen.enc(be.astype(gen.NPDT[dt])), "ga": gen.enc(ga.astype(gen.NPDT[dt]))}


@st.composite
def cases(draw, tier):
    if draw(st.integers(1, 400 if tier == "quick" else 120)) == 1:
        return {"mode": "large", "n": draw(st.integers(1024, 1100)), "psd": draw(st.booleans()), "seed": draw(st.integers(0, 10**6)),
                "alg": draw(st.sampled_from(["omitted", "Auto", "Auto(kw)"])), "ncol": draw(st.sampled_from([0, 2])), "bscale": draw(st.sampled_from([0, 3, -3]))}
    if draw(st.integers(1, 12)) == 1:
        # medium-size dense systems (30..60 rows): the iterative algorithms do not exhaust the Krylov space before they
        # stop, so the requested tolerance is what decides
        return {"mode": "mid", "n": draw(st.integers(30, 60)), "seed": draw(st.integers(0, 10**6)), "cplx": draw(st.booleans()),
                "kappa": draw(st.sampled_from([2.0, 5.0, 20.0])), "ascale": draw(st.sampled_from([0, 0, 3, -3])),
                "alg": draw(st.sampled_from(["CG", "CG", "CG+P", "CG+P", "GMRES", "Auto", "Cholesky", "LU"])),
                "tol_exp": draw(st.sampled_from([-10, -8, -6, -4])), "ncol": draw(st.sampled_from([0, 3])),
                "bscale": draw(st.sampled_from([0, 0, 4, -4])), "psd": draw(st.booleans())}
    g = gen.TraitGen(draw, avoid=AVOID | {"fft", "hh"})
    n = g.integer(1, 8)
    depth = g.pick([0, 1, 1, 2, 2, 3])
    alg = g.pick(ALGS)
    trait = "pd" if alg in ("Cholesky", "CG") else g.pick(["inv", "inv", "pd", "unitary"])
    tree = g.sq(n, trait, depth)
    if trait != "pd" and g.integer(1, 12) == 1:
        tree = awkward_tridiag(g, n, g.pick(["f8", "c16"]))
        m = IR.denote(tree).shape[0]
        if g.boolean():
            tree = g.pick([lambda t: {"k": "kron", "via": "ctor", "ch": [t, g.t_inv(2, 0)]}, lambda t: {"k": "bd", "ch": [t, g.t_inv(2, 0)], "mult": None},
                           lambda t: {"k": "prod", "via": "op", "ch": [t, g.t_inv(m, 0)]}])(tree)
        n = IR.denote(tree).shape[0]
    if trait == "unitary" and alg in ("omitted", "Auto", "LU") and g.integer(1, 3) == 1:
        # a scalar multiple of a declared-unitary operator (|c| != 1), possibly transposed: its inverse is U^H / c
        tree = {"k": "scale", "c": {"t": "float", "v": g.pick([2.0, 0.25, -3.0])}, "side": g.pick("lr"), "ch": [tree]}
        if g.boolean():
            tree = {"k": g.pick(["T", "H"]), "ch": [tree]}
    if g.integer(1, 12) == 1:
        # operators within 1e-6 of the identity / of a unit-diagonal triangular matrix (nothing is "close enough" to a
        # special case): Triangular with diagonal 1 + O(1e-6), or I + 1e-6 S declared PSD
        dt = g.pick(["f8", "c16"])
        off = g.array((n, n), dt, -2, 2)
        dg = 1.0 + 1e-6 * g.ints(n, -3, 3)
        if trait == "pd":
            S = off @ off.conj().T
            tree = {"k": "ann", "a": "PSD", "ch": [g._dense_like(np.eye(n) + 1e-6 * S, dt)]}
        else:
            lower = g.boolean()
            T = (np.tril(off, -1) if lower else np.triu(off, 1)) * 0.25 + np.diag(dg)
            tree = {"k": "tri", "a": gen.enc(T.astype(gen.NPDT[dt])), "lower": lower}
    dts = gen.ALLDT
    return {"mode": "tree", "tree": tree, "alg": alg, "trait": trait, "tol_exp": g.pick([-10, -8, -6]), "extra_iters": g.integer(0, 5),
            "b": g.operand(n, dtypes=dts), "bl": g.left_operand(n, dtypes=dts), "declare": g.boolean(),
            "bscale": g.pick([0, 0, 0, -6, -3, 2, 4, 6]), "b2scale": g.pick([0, -6, -3, 3]),
            # iterative algorithms: the operator rescaled by 10^ascale (tolerances are relative), CG optionally with a
            # Jacobi preconditioner passed through the algorithm object
            "ascale": g.pick([0, 0, 3, -3]) if alg in ("CG", "GMRES") else 0, "precond": alg == "CG" and g.boolean()}


def strategy(tier):
    return cases(tier)


def make_alg(name, n, tol, extra, P=None):
    import cola
    L = cola.linalg
    kw = {} if P is None else {"P": P}
    return {"omitted": None, "Auto": L.Auto(), "LU": L.LU(), "Cholesky": L.Cholesky(),
            "CG": L.CG(tol=tol, max_iters=20 * n + 20 + extra, **kw), "GMRES": L.GMRES(tol=tol, max_iters=n + extra)}[name]


def large_case(case, out):
    import cola
    L = cola.linalg
    n, seed = case["n"], case["seed"]
    rng = np.random.default_rng(seed)
    r = 6
    U = rng.standard_normal((n, r)) / np.sqrt(n)
    V = U if case["psd"] else rng.standard_normal((n, r)) / np.sqrt(n)
    c = 2.0

    def mm(X):
        return c * X + U @ (V.T @ X)

    A = cola.ops.LinearOperator(np.float64, (n, n), matmat=mm)
    if case["psd"]:
        A = cola.PSD(A)
    shape = (n, ) if case["ncol"] == 0 else (n, case["ncol"])
    b = rng.standard_normal(shape) * 10.0 ** case.get("bscale", 0)
    alg = {"omitted": None, "Auto": L.Auto(), "Auto(kw)": L.Auto(tol=1e-8, max_iters=200)}[case["alg"]]
    out.label("mode:large", "alg:" + case["alg"], "psd:" + str(case["psd"]))
    out.nontrivial = True
    site = f"large:{'psd' if case['psd'] else 'general'}:{case['alg']}"
    tol = 1e-8 if case["alg"] == "Auto(kw)" else 1e-6
    for name, fn in (("inv", lambda: L.inv(A, *([alg] if alg else [])) @ b), ("solve", lambda: L.solve(A, b, *([alg] if alg else [])))):
        try:
            x = np.asarray(fn())
        except Exception as e:
            out.fail(name, site, oracle.exc_man(e), e)
            continue
        res = np.linalg.norm(mm(x.reshape(n, -1)) - b.reshape(n, -1), axis=0) / np.linalg.norm(b.reshape(n, -1), axis=0)
        if not np.all(np.isfinite(res)) or np.max(res) > 50 * tol:
            out.fail(name, site, "residual", f"relative residual {np.max(res):.3e} > {50 * tol:.1e}")


def mid_case(case, out):
    import cola
    L = cola.linalg
    n, seed, cplx = case["n"], case["seed"], case["cplx"]
    rng = np.random.default_rng(seed)
    lam = np.linspace(1.0, case["kappa"], n) * 10.0 ** case["ascale"]
    alg_name = case["alg"]
    psd = case["psd"] or alg_name in ("CG", "CG+P", "Cholesky")
    if not psd:
        lam = lam * np.where(rng.random(n) < 0.3, -1, 1)
    Q = KR.rand_unitary(n, seed, cplx)
    M = (Q * lam) @ Q.conj().T
    M = (M + M.conj().T) / 2
    A = cola.ops.Dense(M)
    if psd:
        A = cola.PSD(A)
    tol = 10.0 ** case["tol_exp"]
    P = cola.ops.Diagonal((1.0 / np.real(np.diag(M))).astype(M.dtype)) if alg_name == "CG+P" else None
    alg = {"CG": lambda: L.CG(tol=tol, max_iters=10 * n), "CG+P": lambda: L.CG(tol=tol, max_iters=10 * n, P=P),
           "GMRES": lambda: L.GMRES(tol=tol, max_iters=n + 2), "Auto": lambda: L.Auto(), "Cholesky": lambda: L.Cholesky(),
           "LU": lambda: L.LU()}[alg_name]()
    shape = (n, ) if case["ncol"] == 0 else (n, case["ncol"])
    b = (rng.standard_normal(shape) + (1j * rng.standard_normal(shape) if cplx else 0)) * 10.0 ** case["bscale"]
    out.label("mode:mid", "alg:" + alg_name, "psd:" + str(psd), "complex" if cplx else "real", "ascale:%d" % case["ascale"])
    out.nontrivial = True
    site = f"mid:{'psd' if psd else 'indefinite'}:{alg_name}"
    iterative = alg_name in ("CG", "CG+P", "GMRES")
    eps = np.finfo(np.float64).eps
    for name, fn in (("inv", lambda: L.inv(A, alg) @ b), ("solve", lambda: L.solve(A, b, alg))):
        try:
            x = np.asarray(fn())
        except Exception as e:
            out.fail(name, site, oracle.exc_man(e), e)
            continue
        X, B = x.reshape(n, -1), b.reshape(n, -1)
        r = np.linalg.norm(M @ X - B, axis=0)
        bound = 1e3 * n * eps * (np.linalg.norm(M, 2) * np.linalg.norm(X, axis=0) + np.linalg.norm(B, axis=0))
        if iterative:  # CG stops at tol (1 + |r0|/|b|) |b| = 2 tol |b| from x0 = 0; GMRES at its Arnoldi tolerance times cond
            bound = bound + (10 * tol if alg_name != "GMRES" else 20 * tol * case["kappa"]) * np.linalg.norm(B, axis=0)
        if x.shape != b.shape or not np.all(np.isfinite(x)) or np.any(r > bound):
            j = int(np.argmax(r / bound)) if x.shape == b.shape and np.all(np.isfinite(r)) else 0
            out.fail(name, site, "residual", f"|A x - b| / |b| = {r[j] / np.linalg.norm(B[:, j]):.3e} for tol {tol:g} (n={n}, kappa={case['kappa']})")


def check(case, out):
    import cola
    from cola.ops import LinearOperator
    L = cola.linalg
    if case["mode"] == "large":
        return large_case(case, out)
    if case["mode"] == "mid":
        return mid_case(case, out)
    tree = case["tree"]
    if case.get("ascale"):
        tree = {"k": "scale", "c": {"t": "float", "v": 10.0 ** case["ascale"]}, "side": "l", "ch": [tree]}
    R = IR.denote(tree)
    n = R.shape[0]
    out.label(*TP.tree_labels(tree, R))
    out.label("alg:" + case["alg"], "trait:" + case["trait"])
    A = IR.build(tree)
    # (a false Unitary report of a scalar multiple is not excluded: no inverse rule that is ever selected reads it)
    if TP.scalar_invalidated_annotations(A) & {"PSD", "SelfAdjoint"} or TP.contaminated_by_scalar(tree, ("PSD", "SelfAdjoint")):
        out.inconclusive += 1
        out.label("contaminated:F-C05-scalar")
        return
    if case["alg"] in ("Cholesky", "CG") and case["declare"] and not A.isa(cola.PSD):
        A = cola.PSD(A)
    kind = type(A).__name__.split("[")[0]
    tol = 10.0 ** case["tol_exp"]
    P = None
    # (a preconditioner is sized for the whole operator: it is only handed to operators without a structural inverse
    # rule, which would pass the algorithm object - and with it P - on to factors of other sizes)
    core = A
    if kind == "Product" and len(A.Ms) == 2 and type(A.Ms[0]).__name__ == "ScalarMul":
        core = A.Ms[1]  # a scalar multiple: the rule inverts the scalar and hands the algorithm to the other factor (same size)
    if case.get("precond") and type(core).__name__.split("[")[0] in ("Dense", "Sum", "LinearOperator", "Tridiagonal", "Sparse"):
        d = np.real(np.diag(R.M)).astype(np.float64)
        if np.all(d > 0):
            P = cola.ops.Diagonal((1.0 / d).astype(R.dtype))
            out.label("precond:jacobi")
    alg = make_alg(case["alg"], n, tol, case["extra_iters"], P)
    iterative = case["alg"] in ("CG", "GMRES")
    b, bl = IR.dec(case["b"]), IR.dec(case["bl"])
    if case.get("bscale"):
        b = (b * 10.0 ** case["bscale"]).astype(b.dtype)
        out.label("bscale:%d" % case["bscale"])
    b_copy = b.copy()
    M = R.M.astype(np.complex128 if (R.dtype.kind == "c") else np.float64)
    eps = max(IR.tree_eps(tree), oracle.eps_of(b.dtype), oracle.eps_of(R.dtype))
    normM = max(np.linalg.norm(M, 2), 1e-300)
    cond = np.linalg.cond(M)
    site = f"{kind}:{case['alg']}"
    out.nontrivial = kind not in ("Dense", "LinearOperator") or case["alg"] != "omitted" or R.dtype.kind == "c" or b.ndim == 2
    extra = [] if alg is None else [alg]

    def guarded(sub, fn):
        try:
            return fn()
        except Exception as e:
            if oracle.is_contract_refusal(e):
                out.refusals += 1
                out.notes.append("refusal:" + oracle.exc_bucket(e)[1])
                return None
            out.fail(sub, site, oracle.exc_man(e), e)
            return None

    Ainv = guarded("inv", lambda: L.inv(A, *extra))
    if Ainv is None:
        return
    if not isinstance(Ainv, LinearOperator) or tuple(Ainv.shape) != (n, n):
        out.fail("inv", site, "type_or_shape", f"{Ainv!r}")
        return
    x1 = guarded("inv_apply", lambda: np.asarray(Ainv @ b))
    x2 = guarded("solve", lambda: np.asarray(L.solve(A, b, *extra)))

    def residual_ok(sub, x, b=b):
        if x is None:
            return
        if x.shape != b.shape or not np.all(np.isfinite(x)):
            out.fail(sub, site, "shape_or_nonfinite", f"{x.shape}")
            return
        X, B = x.reshape(n, -1), b.reshape(n, -1)
        r = np.linalg.norm(M @ X - B, axis=0)
        bound = 1e3 * max(n, 1) * eps * (normM * np.linalg.norm(X, axis=0) + np.linalg.norm(B, axis=0)) + 1e-300
        if iterative:
            bound = bound + 20 * tol * np.linalg.norm(B, axis=0) * (cond if case["alg"] == "GMRES" else 1)
        if np.any(r > bound):
            j = int(np.argmax(r / bound))
            out.fail(sub, site, "residual", f"|A x - b| = {r[j]:.3e} > {bound[j]:.3e} (n={n}, cond={cond:.1f})")

    residual_ok("inv_apply", x1)
    residual_ok("solve", x2)
    # the same inverse operator applied again: to a second right-hand side of the same shape and another scale (each
    # product is a fresh solve), then to the first one again (again a solution)
    if x1 is not None:
        b2 = ((b_copy[::-1] + 1) * 10.0 ** (case.get("b2scale", 0) - case.get("bscale", 0))).astype(b.dtype)
        x3 = guarded("inv_apply_second", lambda: np.asarray(Ainv @ b2))
        residual_ok("inv_apply_second", x3, b2)
        x4 = guarded("inv_apply_repeat", lambda: np.asarray(Ainv @ b))
        residual_ok("inv_apply_repeat", x4)
    if not np.array_equal(b, b_copy):
        out.fail("rhs", site, "mutated", "the caller's right-hand side changed")
    if not iterative and x1 is not None and x2 is not None and x1.shape == x2.shape and not np.array_equal(x1, x2):
        out.fail("solve", site, "differs_from_inv", f"max diff {np.abs(x1 - x2).max():.3e}")
    Minv = np.linalg.inv(M)
    ninv = np.linalg.norm(Minv, 2)
    itol = (1e3 * eps * cond + (50 * tol * cond if iterative else 0)) * ninv + 1e-300
    D = guarded("inv_dense", lambda: np.asarray(Ainv.to_dense()))
    if D is not None:
        if D.shape != (n, n) or not np.all(np.isfinite(D)):
            out.fail("inv_dense", site, "shape_or_nonfinite", f"{D.shape}")
        elif np.linalg.norm(D - Minv, 2) > itol:
            out.fail("inv_dense", site, "value", f"|inv(A).to_dense() - inv(M)| = {np.linalg.norm(D - Minv, 2):.3e} > {itol:.3e}")
    if iterative:
        return
    for sub, fn, ref in (("inv_T", lambda: np.asarray(Ainv.T.to_dense()), Minv.T), ("inv_H", lambda: np.asarray(Ainv.H.to_dense()), Minv.conj().T)):
        Dt = guarded(sub, fn)
        if Dt is not None and (Dt.shape != (n, n) or not np.all(np.isfinite(Dt)) or np.linalg.norm(Dt - ref, 2) > itol):
            out.fail(sub, site, "value", f"{np.linalg.norm(Dt - ref, 2) if Dt.shape == (n, n) and np.all(np.isfinite(Dt)) else ('non-finite' if Dt.shape == (n, n) else Dt.shape)}")
    y = guarded("left", lambda: np.asarray(bl @ Ainv))
    if y is not None:
        yref = bl.astype(np.complex128) @ Minv if (bl.dtype.kind == "c" or M.dtype.kind == "c") else bl @ Minv
        if y.shape != yref.shape or not np.all(np.isfinite(y)) or np.linalg.norm(y - yref) > itol * max(np.linalg.norm(bl), 1e-300) * np.sqrt(max(1, y.size)):
            out.fail("left", site, "value", f"|b @ inv(A) - b inv(M)| = {np.linalg.norm(y - yref) if y.shape == yref.shape and np.all(np.isfinite(y)) else ('non-finite' if y.shape == yref.shape else y.shape)}")
