"""Hypothesis strategies for operator-expression IR (DESIGN 3.2): shape- and trait-directed,
construction instead of rejection.  All randomness comes from Hypothesis draws."""
import numpy as np
from hypothesis import strategies as st

from cvh.ir import enc

REAL = ("f4", "f8")
CPLX = ("c8", "c16")
ALLDT = REAL + CPLX
NPDT = {"f4": np.float32, "f8": np.float64, "c8": np.complex64, "c16": np.complex128}

LEAF_ANY = ["dense", "sparse", "matmat", "kernel", "jac", "lazify"]
LEAF_SQ = ["tri", "smul", "eye", "diag", "tridiag", "perm", "hh", "fft", "hess"]
COMP_ANY = ["prod", "sum", "kron", "bd", "T", "H", "slice", "cat", "scale", "nodisp", "neg"]
COMP_SQ = ["kronsum", "ann"]


def divisors(n):
    return [d for d in range(1, n + 1) if n % d == 0]


class TreeGen:
    def __init__(self, draw, dtypes=ALLDT, avoid=(), kinds=None, hi=3, maxdim=6, index_arrays=True, scalar_types=None):
        self.draw = draw
        self.dtypes = tuple(dtypes)
        self.avoid = set(avoid)
        self.kinds = None if kinds is None else set(kinds)
        self.hi = hi
        self.maxdim = maxdim
        self.index_arrays = index_arrays
        self.scalar_types = scalar_types
        self.leaf_any, self.leaf_sq = list(LEAF_ANY), list(LEAF_SQ)
        self.comp_any, self.comp_sq = list(COMP_ANY), list(COMP_SQ)

    # ------------------------------------------------------------------ primitive draws
    def ok(self, k):
        return k not in self.avoid and (self.kinds is None or k in self.kinds)

    def pick(self, seq):
        return self.draw(st.sampled_from(list(seq)))

    def integer(self, lo, hi):
        return self.draw(st.integers(lo, hi))

    def boolean(self):
        return self.draw(st.booleans())

    def ints(self, n, lo=None, hi=None):
        lo = -self.hi if lo is None else lo
        hi = self.hi if hi is None else hi
        if n <= 12:
            return np.array(self.draw(st.lists(st.integers(lo, hi), min_size=n, max_size=n)), dtype=np.int64)
        s = self.draw(st.integers(0, 2**32 - 1))
        return np.random.default_rng(s).integers(lo, hi + 1, size=n)

    def dtype(self, dtypes=None):
        return self.pick(dtypes or self.dtypes)

    def array(self, shape, dt=None, lo=None, hi=None):
        dt = dt or self.dtype()
        n = int(np.prod(shape))
        a = self.ints(n, lo, hi).astype(np.float64)
        if dt in CPLX:
            a = a + 1j * self.ints(n, lo, hi)
        return a.reshape(shape).astype(NPDT[dt])

    def scalar(self, allow_zero=True, allow_complex=True, types=None):
        types = types or self.scalar_types or ["int", "float", "complex", "f4", "f8", "c8", "c16", "a0f4", "a0f8", "a0c16"]
        if not allow_complex:
            types = [t for t in types if t not in ("complex", "c8", "c16", "a0c8", "a0c16")]
        t = self.pick(types)
        re = self.integer(-3, 3)
        if not allow_zero and re == 0:
            re = 2
        if t in ("complex", "c8", "c16", "a0c8", "a0c16"):
            return {"t": t, "v": [re, self.integer(-3, 3)]}
        if t == "int":
            return {"t": t, "v": re}
        half = self.boolean() and t != "int"
        return {"t": t, "v": re + (0.5 if half else 0.0)}

    # ------------------------------------------------------------------ operands
    def operand(self, n, dtypes=None, ranks=(1, 2)):
        rank = self.pick(ranks)
        dt = self.dtype(dtypes)
        shape = (n, ) if rank == 1 else (n, self.integer(1, 3))
        e = enc(self.array(shape, dt))
        if rank == 2 and self.integer(1, 4) == 1:
            e["order"] = "F"  # column-major operand (what X.T, scipy routines and other operators hand over)
        return e

    def left_operand(self, n, dtypes=None, ranks=(1, 2)):
        rank = self.pick(ranks)
        dt = self.dtype(dtypes)
        shape = (n, ) if rank == 1 else (self.integer(1, 3), n)
        e = enc(self.array(shape, dt))
        if rank == 2 and self.integer(1, 4) == 1:
            e["order"] = "F"
        return e

    # ------------------------------------------------------------------ generic trees
    def op(self, r, c, depth):
        bias = [k for k in getattr(self, "bias_sq", ()) if self.ok(k)]
        if r == c and bias and self.integer(1, 4) == 1:
            return getattr(self, "k_" + self.pick(bias))(r, c, depth - 1)
        cands = [k for k in self.leaf_any if self.ok(k)]
        if r == c:
            cands += [k for k in self.leaf_sq if self.ok(k)]
        if depth > 0:
            comp = [k for k in self.comp_any if self.ok(k)]
            if r == c:
                comp += [k for k in self.comp_sq if self.ok(k)]
            comp = [k for k in comp if self.feasible(k, r, c)]
            # composites twice as likely as leaves while depth remains
            cands = cands + comp + comp
        k = self.pick(cands)
        return getattr(self, "k_" + k)(r, c, depth - 1)

    def feasible(self, k, r, c):
        if k == "kron":
            return len(self.kron_splits(r, c)) > 0
        if k == "kronsum":
            return len([d for d in divisors(r) if 1 < d < r]) > 0
        if k == "bd":
            return min(r, c) >= 2 or (r >= 1 and c >= 1)
        if k == "cat":
            return max(r, c) >= 2
        return True

    def kron_splits(self, r, c):
        return [(a, b) for a in divisors(r) for b in divisors(c) if (a, b) not in ((1, 1), (r, c))]

    def dim(self, lo=1):
        return self.integer(lo, self.maxdim)

    # leaves
    def k_dense(self, r, c, d=0):
        return {"k": "dense", "a": enc(self.array((r, c)))}

    def k_lazify(self, r, c, d=0):
        return {"k": "lazify", "a": enc(self.array((r, c)))}

    def k_matmat(self, r, c, d=0):
        return {"k": "matmat", "a": enc(self.array((r, c)))}

    def k_tri(self, r, c, d=0):
        lower = self.boolean()
        a = self.array((r, r))
        a = np.tril(a) if lower else np.triu(a)
        return {"k": "tri", "a": enc(a), "lower": lower}

    def k_sparse(self, r, c, d=0):
        nnz = self.integer(0, min(r * c, 8))
        pos = self.draw(st.lists(st.integers(0, r * c - 1), min_size=nnz, max_size=nnz, unique=True))
        dt = self.dtype()
        data = self.array((nnz, ), dt)
        return {"k": "sparse", "data": enc(data), "rows": [p // c for p in pos], "cols": [p % c for p in pos], "shape": [r, c]}

    def k_smul(self, r, c, d=0):
        dt = self.dtype()
        s = self.scalar(allow_complex=dt in CPLX, types=["int", "float", "complex"])
        return {"k": "smul", "c": s, "n": r, "dt": dt}

    def k_eye(self, r, c, d=0):
        return {"k": "eye", "n": r, "dt": self.dtype()}

    def k_diag(self, r, c, d=0):
        return {"k": "diag", "d": enc(self.array((r, )))}

    def k_tridiag(self, r, c, d=0):
        dt = self.dtype()
        al = enc(self.array((r - 1, ), dt))
        if self.integer(1, 4) == 1:  # symmetric (not Hermitian when complex): one array object for both bands
            return {"k": "tridiag", "al": al, "be": enc(self.array((r, ), dt)), "ga": al, "same_band": True}
        return {"k": "tridiag", "al": al, "be": enc(self.array((r, ), dt)), "ga": enc(self.array((r - 1, ), dt))}

    def k_perm(self, r, c, d=0):
        p = self.draw(st.permutations(list(range(r))))
        dt = self.pick([None] + list(self.dtypes))
        return {"k": "perm", "p": list(p), "dt": dt}

    def k_hh(self, r, c, d=0):
        v = self.array((r, 1))
        beta = float(self.pick([2.0, 1.0, 0.5, -1.0]))
        if np.iscomplexobj(v) and self.integer(1, 3) == 1:
            beta = self.pick([[1.0, 1.0], [0.5, -0.5], [0.0, 2.0]])  # I - beta v v^H with a complex beta is not Hermitian
        return {"k": "hh", "v": enc(v), "beta": beta}

    def k_kernel(self, r, c, d=0):
        dt = self.dtype()
        dim = self.integer(1, 2)
        x1 = self.array((r, dim), dt, -2, 2)
        x2 = self.array((c, dim), dt, -2, 2)
        return {"k": "kernel", "x1": enc(x1), "x2": enc(x2), "fn": self.pick(["dot1", "dot", "asym", "asym"]),
                "bs1": self.integer(1, r), "bs2": self.integer(1, c)}

    def k_fft(self, r, c, d=0):
        cd = [t for t in self.dtypes if t in CPLX] or ["c16"]
        return {"k": "fft", "n": r, "dt": self.pick(cd)}

    def k_jac(self, r, c, d=0):
        dt = self.dtype([t for t in self.dtypes if t in REAL] or ["f8"])
        B = self.array((r, c), dt, -2, 2)
        C = self.array((r, c, c), dt, -1, 1)
        x = self.array((c, ), dt, -2, 2)
        return {"k": "jac", "B": enc(B), "C": enc(C), "x": enc(x)}

    def k_hess(self, r, c, d=0):
        dt = self.dtype([t for t in self.dtypes if t in REAL] or ["f8"])
        return {"k": "hess", "S": enc(self.array((r, r), dt, -2, 2)), "c": enc(self.array((r, ), dt, -1, 1)),
                "x": enc(self.array((r, ), dt, -2, 2))}

    # composites
    def k_prod(self, r, c, d):
        nf = self.integer(2, 3)
        dims = [r] + [self.dim() for _ in range(nf - 1)] + [c]
        return self._share_last({"k": "prod", "via": self.pick(["op", "op", "ctor"]),
                                 "ch": [self.op(dims[i], dims[i + 1], d) for i in range(nf)]},
                                same_shape=(dims[0], dims[1]) == (dims[-2], dims[-1]))

    def k_kronprod(self, r, c, d=0):
        """(A1 x A2 [x a]) @ (B1 x B2 [x b]): two Kronecker operators whose leading factors conform pairwise; a surplus
        factor necessarily has a unit inner dimension (a: N x 1 on the left, b: 1 x N on the right), so the factor counts
        of the two operands may differ."""
        r1 = self.pick(divisors(r))
        r2 = self.pick(divisors(r // r1))
        rs = r // (r1 * r2)
        d1 = self.pick(divisors(c))
        d2 = self.pick(divisors(c // d1))
        ds = c // (d1 * d2)
        c1, c2 = self.integer(1, 3), self.integer(1, 3)
        left = [self.op(r1, c1, 0), self.op(r2, c2, 0)] + ([self.op(rs, 1, 0)] if rs > 1 or self.integer(1, 4) == 1 else [])
        right = [self.op(c1, d1, 0), self.op(c2, d2, 0)] + ([self.op(1, ds, 0)] if ds > 1 or self.integer(1, 4) == 1 else [])
        if rs > 1 and len(left) == 2 or ds > 1 and len(right) == 2:
            raise AssertionError("unreachable")
        return {"k": "prod", "via": self.pick(["op", "ctor"]),
                "ch": [{"k": "kron", "via": self.pick(["fn", "ctor"]), "ch": left}, {"k": "kron", "via": self.pick(["fn", "ctor"]), "ch": right}]}

    def _share_last(self, node, same_shape=True):
        """now and then the last child is the very same operator object as the first (A + A, kron(A, B, A), A @ A)"""
        ch = node["ch"]
        if same_shape and len(ch) >= 2 and "share" not in self.avoid and self.integer(1, 6) == 1:
            ch[-1] = ch[0]
            node["share"] = [[0, len(ch) - 1]]
        return node

    def k_sum(self, r, c, d):
        nf = self.integer(2, 3)
        return self._share_last({"k": "sum", "via": self.pick(["op", "op", "ctor", "builtin"]), "ch": [self.op(r, c, d) for _ in range(nf)]})

    def k_kron(self, r, c, d):
        splits = self.kron_splits(r, c)
        sq = [(a, b) for a, b in splits if a == b and r // a == c // b]
        a, b = self.pick(sq if sq and self.boolean() else splits)
        r2, c2 = r // a, c // b
        ch = [self.op(a, b, d)]
        if d > 0 and self.kron_splits(r2, c2) and self.boolean():
            a2, b2 = self.pick(self.kron_splits(r2, c2))
            ch += [self.op(a2, b2, d), self.op(r2 // a2, c2 // b2, d)]
        else:
            ch.append(self.op(r2, c2, d))
        if a == b and len(ch) == 2 and self.integer(1, 3) == 1:
            # nested functional Kronecker products whose flattening puts two different Diagonal factors next to each other:
            # kron(D1, kron(D2, X)) with a non-diagonal X
            ms = [x for x in divisors(r2) if x in divisors(c2) and x >= 1]
            m = self.pick(ms)
            D1 = {"k": "diag", "d": enc(self.array((a, ), self.dtype()))}
            D2 = {"k": "diag", "d": enc(self.array((m, ), self.dtype()))}
            X = self.k_dense(r2 // m, c2 // m)
            return {"k": "kron", "via": "fn", "ch": [D1, {"k": "kron", "via": "fn", "ch": [D2, X]}]}
        first, last = (a, b), ((r2, c2) if len(ch) == 2 else (r2 // a2, c2 // b2))
        return self._share_last({"k": "kron", "via": self.pick(["fn", "fn", "ctor"]), "ch": ch}, same_shape=first == last)

    def k_kronsum(self, r, c, d):
        a = self.pick([x for x in divisors(r) if 1 < x < r])
        ch = [self.op(a, a, d), self.op(r // a, r // a, d)]
        return self._share_last({"k": "kronsum", "via": self.pick(["fn", "fn", "ctor"]), "ch": ch}, same_shape=a == r // a)

    def bd_layout(self, r, c):
        """Block shapes and multiplicities with sum m_i r_i = r and sum m_i c_i = c."""
        lim = min(r, c)
        nb = self.integer(1, min(3, lim))
        mult = [1] * nb
        free = lim - nb
        for i in range(nb):
            if free > 0 and self.boolean():
                m = self.integer(0, min(2, free))
                mult[i] += m
                free -= m
        anchor = self.integer(0, nb - 1)
        mult[anchor] = 1
        rs, cs = [1] * nb, [1] * nb
        for tot, arr in ((r, rs), (c, cs)):
            rem = tot - sum(mult)
            while rem > 0:
                opts = [i for i in range(nb) if mult[i] <= rem]
                i = self.pick(opts)
                arr[i] += 1
                rem -= mult[i]
        return rs, cs, mult

    def k_bd(self, r, c, d):
        rs, cs, mult = self.bd_layout(r, c)
        ch = [self.op(a, b, d) for a, b in zip(rs, cs)]
        use_mult = any(m != 1 for m in mult) or self.boolean()
        return {"k": "bd", "ch": ch, "mult": mult if use_mult else None}

    def k_T(self, r, c, d):
        return {"k": "T", "ch": [self.op(c, r, d)]}

    def k_H(self, r, c, d):
        return {"k": "H", "ch": [self.op(c, r, d)]}

    def index_for(self, n_out, n_in):
        """An index expression selecting exactly n_out of n_in positions (slice or index array)."""
        forms = ["slice"]
        if self.index_arrays and "index_array" not in self.avoid:
            forms.append("ix")
        form = self.pick(forms)
        if form == "ix":
            if "dup_index" in self.avoid:
                # distinct positions (repeated positions: known finding recorded under C20), random signs
                pos = self.draw(st.lists(st.integers(0, n_in - 1), min_size=n_out, max_size=n_out, unique=True))
                return {"ix": [p - n_in if self.boolean() else p for p in pos]}
            return {"ix": [self.integer(-n_in, n_in - 1) for _ in range(n_out)]}
        steps = [s for s in (1, 2, 3) if (n_out - 1) * s + 1 <= n_in]
        step = self.pick(steps)
        span = (n_out - 1) * step + 1
        start = self.integer(0, n_in - span)
        if "negstep" not in self.avoid and self.boolean() and n_out >= 1:
            # reversed traversal: positions start+span-1, ..., start
            first = start + span - 1
            stop = start - 1
            return {"sl": [first, None if stop < 0 else stop, -step]}
        stop = start + span
        variants = [[start, stop, step]]
        if start == 0:
            variants.append([None, stop, step])
        if stop >= n_in:
            variants.append([start, None, step])
        if step == 1:
            variants.append([start, stop, None])
            variants.append([start - n_in, stop, None])  # negative start
        return {"sl": self.pick(variants)}

    def k_slice(self, r, c, d):
        R, C = r + self.integer(0, 2), c + self.integer(0, 2)
        s0, s1 = self.index_for(r, R), self.index_for(c, C)
        if "mixed_slice" in self.avoid and ("ix" in s0) != ("ix" in s1):
            # both selections of the same form (a slice object paired with an index array: open finding recorded under C18)
            if "ix" in s0:
                s1 = {"ix": list(range(C))[slice(*s1["sl"])]}
            else:
                s0 = {"ix": list(range(R))[slice(*s0["sl"])]}
        return {"k": "slice", "ch": [self.op(R, C, d)], "s0": s0, "s1": s1}

    def partition(self, n):
        k = self.integer(2, min(3, n))
        cuts = sorted(self.draw(st.lists(st.integers(1, n - 1), min_size=k - 1, max_size=k - 1, unique=True)))
        b = [0] + cuts + [n]
        return [b[i + 1] - b[i] for i in range(k)]

    def k_cat(self, r, c, d):
        axes = [ax for ax, n in ((0, r), (1, c)) if n >= 2 and ("cat%d" % ax) not in self.avoid]
        if not axes:
            return self.k_dense(r, c)
        axis = self.pick(axes)
        parts = self.partition(r if axis == 0 else c)
        ch = [self.op(p, c, d) if axis == 0 else self.op(r, p, d) for p in parts]
        return {"k": "cat", "axis": axis, "ch": ch}

    def k_scale(self, r, c, d):
        return {"k": "scale", "c": self.scalar(), "side": self.pick(["l", "r"]), "ch": [self.op(r, c, d)]}

    def k_neg(self, r, c, d):
        return {"k": "neg", "ch": [self.op(r, c, d)]}

    def k_nodisp(self, r, c, d):
        return {"k": "nodisp", "ch": [self.op(r, c, d)]}

    def k_ann(self, r, c, d):
        """Annotated wrapper with a declaration that is true by construction."""
        a = self.pick(["SelfAdjoint", "PSD", "Unitary", "Stiefel"])
        n = r
        dt = self.dtype()
        if a in ("SelfAdjoint", "PSD"):
            B = self.array((n, n), dt, -2, 2)
            M = B @ B.conj().T + np.eye(n, dtype=B.dtype) if a == "PSD" else B + B.conj().T
            child = {"k": self.pick(["dense", "matmat"]), "a": enc(M.astype(NPDT[dt]))}
        else:
            p = list(self.draw(st.permutations(list(range(n)))))
            sg = self.ints(n, 0, 1) * 2 - 1
            M = np.zeros((n, n))
            M[np.arange(n), p] = sg
            child = {"k": self.pick(["dense", "matmat"]), "a": enc(M.astype(NPDT[dt]))}
        return {"k": "ann", "a": a, "ch": [child]}


def shape_class(r, c):
    if r == 1 and c == 1:
        return "1x1"
    if r == 1:
        return "row"
    if c == 1:
        return "col"
    if 8 * r < c:
        return "verywide"
    return "square" if r == c else ("tall" if r > c else "wide")


# ============================================================================ trait-directed generation
class TraitGen(TreeGen):
    """Square operators with a property guaranteed by construction.
    traits: 'pd' (Hermitian positive definite), 'herm', 'unitary', 'inv' (invertible, well conditioned), 'gen'.
    declare: probability weight with which leaves are wrapped in a (true) annotation."""
    def __init__(self, draw, declare=True, **kw):
        super().__init__(draw, **kw)
        self.declare = declare

    # ---------------------------------------------------------------- helpers
    def _decl(self, node, options):
        """Optionally wrap node in one of the (true) declarations in options."""
        if not self.declare or "ann" in self.avoid:
            return node
        a = self.pick([None] + list(options))
        return node if a is None else {"k": "ann", "a": a, "ch": [node]}

    def _dense_like(self, M, dt, kinds=("dense", "matmat", "lazify")):
        kinds = [k for k in kinds if self.ok(k)] or ["dense"]
        return {"k": self.pick(kinds), "a": enc(np.asarray(M).astype(NPDT[dt]))}

    def _split2(self, n):
        ds = [d for d in divisors(n) if 1 < d < n]
        return self.pick(ds) if ds else None

    def _bd_parts(self, n):
        """sizes and multiplicities with sum m_i s_i = n."""
        rs, _, mult = self.bd_layout(n, n)
        # bd_layout fills rows and cols independently; for square blocks redo columns = rows
        return rs, mult

    def sq(self, n, trait, depth):
        return getattr(self, "t_" + trait)(n, depth)

    def _decl_comp(self, node, options):
        """now and then a (true) declaration on a composite itself, not only on its leaves"""
        if node.get("ch") and node["k"] != "ann" and self.declare and "ann" not in self.avoid and self.integer(1, 6) == 1:
            return {"k": "ann", "a": self.pick(options), "ch": [node]}
        return node

    def t_pd(self, n, d):
        return self._decl_comp(self._t_pd(n, d), ["PSD", "PSD", "SelfAdjoint"])

    def t_herm(self, n, d):
        return self._decl_comp(self._t_herm(n, d), ["SelfAdjoint"])

    def t_unitary(self, n, d):
        return self._decl_comp(self._t_unitary(n, d), ["Unitary", "Unitary", "Stiefel"])

    # ---------------------------------------------------------------- positive definite
    def pd_matrix(self, n, dt):
        B = self.array((n, n), dt, -2, 2)
        return B @ B.conj().T + self.integer(1, 3) * np.eye(n)

    def _t_pd(self, n, d):
        opts = ["dense", "diag", "smul", "eye"]
        if d > 0:
            opts += ["scale", "sum", "TH", "bd", "gram", "gram"]
            if self._split2(n):
                opts += ["kron", "kronsum"]
        k = self.pick([o for o in opts if self.ok(o if o not in ("TH", "gram") else "T")])
        dt = self.dtype()
        if k == "dense":
            return self._decl(self._dense_like(self.pd_matrix(n, dt), dt), ["PSD", "SelfAdjoint"])
        if k == "diag":
            return self._decl({"k": "diag", "d": enc(self.ints(n, 1, 4).astype(NPDT[dt]))}, ["PSD", "SelfAdjoint"])
        if k == "smul":
            return self._decl({"k": "smul", "c": {"t": "float", "v": float(self.integer(1, 4))}, "n": n, "dt": dt}, ["PSD", "SelfAdjoint"])
        if k == "eye":
            return {"k": "eye", "n": n, "dt": dt}
        if k == "scale":
            return {"k": "scale", "c": {"t": self.pick(["int", "float", "f8"]), "v": self.integer(1, 3)}, "side": self.pick("lr"), "ch": [self.t_pd(n, d - 1)]}
        if k == "sum":
            return {"k": "sum", "via": "op", "ch": [self.t_pd(n, d - 1), self.t_pd(n, d - 1)]}
        if k == "TH":
            return {"k": self.pick(["T", "H"]), "ch": [self.t_pd(n, d - 1)]}
        if k == "bd":
            rs, mult = self._bd_parts(n)
            return {"k": "bd", "ch": [self.t_pd(s, d - 1) for s in rs], "mult": mult}
        if k == "kron":
            a = self._split2(n)
            return {"k": "kron", "via": self.pick(["fn", "ctor"]), "ch": [self.t_pd(a, d - 1), self.t_pd(n // a, d - 1)]}
        if k == "kronsum":
            a = self._split2(n)
            return {"k": "kronsum", "via": self.pick(["fn", "ctor"]), "ch": [self.t_pd(a, d - 1), self.t_pd(n // a, d - 1)]}
        if k == "gram":  # X^H X with X invertible: PD by construction (the same object on both sides)
            return {"k": "gram", "form": self.pick(["HA", "AH"]), "ch": [self.t_inv(n, d - 1)]}
        raise AssertionError(k)

    # ---------------------------------------------------------------- hermitian (possibly indefinite)
    def _t_herm(self, n, d):
        opts = ["dense", "diag", "tridiag", "hess", "pd", "smul"]
        if d > 0:
            opts += ["scale", "sum", "TH", "bd", "neg"]
            if self._split2(n):
                opts += ["kron", "kronsum"]
        k = self.pick(opts)
        dt = self.dtype()
        if k == "dense":
            B = self.array((n, n), dt, -2, 2)
            return self._decl(self._dense_like(B + B.conj().T, dt), ["SelfAdjoint"])
        if k == "diag":
            return self._decl({"k": "diag", "d": enc(self.ints(n, -3, 3).astype(NPDT[dt]))}, ["SelfAdjoint"])
        if k == "smul":
            return self._decl({"k": "smul", "c": {"t": "float", "v": float(self.integer(-3, 3))}, "n": n, "dt": dt}, ["SelfAdjoint"])
        if k == "tridiag":
            al = self.array((n - 1, ), dt)
            return self._decl({"k": "tridiag", "al": enc(al), "be": enc(self.ints(n, -3, 3).astype(NPDT[dt])), "ga": enc(al.conj())}, ["SelfAdjoint"])
        if k == "hess":
            return self.k_hess(n, n)
        if k == "pd":
            return self.t_pd(n, d)
        if k == "scale":
            return {"k": "scale", "c": {"t": self.pick(["int", "float"]), "v": self.pick([-2, -1, 1, 2, 3])}, "side": self.pick("lr"), "ch": [self.t_herm(n, d - 1)]}
        if k == "neg":
            return {"k": "neg", "ch": [self.t_herm(n, d - 1)]}
        if k == "sum":
            return {"k": "sum", "via": "op", "ch": [self.t_herm(n, d - 1), self.t_herm(n, d - 1)]}
        if k == "TH":
            return {"k": self.pick(["T", "H"]), "ch": [self.t_herm(n, d - 1)]}
        if k == "bd":
            rs, mult = self._bd_parts(n)
            return {"k": "bd", "ch": [self.t_herm(s, d - 1) for s in rs], "mult": mult}
        a = self._split2(n)
        return {"k": k, "via": self.pick(["fn", "ctor"]), "ch": [self.t_herm(a, d - 1), self.t_herm(n // a, d - 1)]}

    # ---------------------------------------------------------------- unitary
    def _t_unitary(self, n, d):
        opts = ["perm", "eye", "signed", "hh", "fft"]
        if d > 0:
            opts += ["prod", "TH", "bd", "scale"]
            if self._split2(n):
                opts += ["kron"]
        k = self.pick([o for o in opts if self.ok({"signed": "dense", "TH": "T"}.get(o, o))])
        dt = self.dtype()
        if k == "perm":
            return self.k_perm(n, n)
        if k == "eye":
            return {"k": "eye", "n": n, "dt": dt}
        if k == "fft":
            return self.k_fft(n, n)
        if k == "hh":
            v = np.zeros((n, 1))
            v[self.integer(0, n - 1), 0] = 1.0
            return self._decl({"k": "hh", "v": enc(v.astype(NPDT[dt])), "beta": 2.0}, ["Unitary", "Stiefel"])
        if k == "signed":
            p = list(self.draw(st.permutations(list(range(n)))))
            M = np.zeros((n, n), dtype=np.complex128)
            ph = [1, -1, 1j, -1j] if dt in CPLX else [1, -1]
            M[np.arange(n), p] = [self.pick(ph) for _ in range(n)]
            node = self._dense_like(M, dt)
            return {"k": "ann", "a": self.pick(["Unitary", "Unitary", "Stiefel"]), "ch": [node]} if self.declare else node
        if k == "prod":
            return {"k": "prod", "via": self.pick(["op", "ctor"]), "ch": [self.t_unitary(n, d - 1), self.t_unitary(n, d - 1)]}
        if k == "TH":
            return {"k": self.pick(["T", "H"]), "ch": [self.t_unitary(n, d - 1)]}
        if k == "bd":
            rs, mult = self._bd_parts(n)
            return {"k": "bd", "ch": [self.t_unitary(s, d - 1) for s in rs], "mult": mult}
        if k == "scale":
            return {"k": "scale", "c": {"t": "int", "v": self.pick([1, -1])}, "side": self.pick("lr"), "ch": [self.t_unitary(n, d - 1)]}
        a = self._split2(n)
        return {"k": "kron", "via": self.pick(["fn", "ctor"]), "ch": [self.t_unitary(a, d - 1), self.t_unitary(n // a, d - 1)]}

    # ---------------------------------------------------------------- invertible, well conditioned
    def dd_matrix(self, n, dt, lo=-2, hi=2):
        a = self.array((n, n), dt, lo, hi)
        sg = 1 - 2 * self.ints(n, 0, 1)
        a[np.arange(n), np.arange(n)] = (np.abs(a).sum(1) - np.abs(np.diag(a)) + self.ints(n, 1, 2)) * sg
        return a

    def t_inv(self, n, d):
        opts = ["dense", "tri", "diag", "smul", "perm", "eye", "pd", "unitary", "tridiag"]
        if d > 0:
            opts += ["prod", "prod", "TH", "bd", "bd", "scale", "neg"]
            if self._split2(n):
                opts += ["kron", "kron"]
        k = self.pick([o for o in opts if self.ok({"TH": "T", "pd": "dense", "unitary": "perm"}.get(o, o))])
        dt = self.dtype()
        if k == "dense":
            return self._dense_like(self.dd_matrix(n, dt), dt)
        if k == "tri":
            lower = self.boolean()
            a = self.dd_matrix(n, dt, -1, 1)
            return {"k": "tri", "a": enc(np.tril(a) if lower else np.triu(a)), "lower": lower}
        if k == "diag":
            v = self.ints(n, 1, 4) * (1 - 2 * self.ints(n, 0, 1))
            v = v.astype(NPDT[dt])
            if dt in CPLX:
                v = v * np.array([self.pick([1, 1j, -1j, 1]) for _ in range(n)])
            return {"k": "diag", "d": enc(v.astype(NPDT[dt]))}
        if k == "smul":
            c = self.scalar(allow_zero=False, allow_complex=dt in CPLX, types=["int", "float", "complex"])
            if complex(*(c["v"] if isinstance(c["v"], list) else (c["v"], 0))) == 0:
                c = {"t": "float", "v": 2.0}
            return {"k": "smul", "c": c, "n": n, "dt": dt}
        if k == "perm":
            return self.k_perm(n, n)
        if k == "eye":
            return {"k": "eye", "n": n, "dt": dt}
        if k == "tridiag":
            al, ga = self.array((n - 1, ), dt, -1, 1), self.array((n - 1, ), dt, -1, 1)
            be = (self.ints(n, 3, 5) * (1 - 2 * self.ints(n, 0, 1))).astype(NPDT[dt])
            return {"k": "tridiag", "al": enc(al), "be": enc(be), "ga": enc(ga)}
        if k == "pd":
            return self.t_pd(n, d)
        if k == "unitary":
            return self.t_unitary(n, d)
        if k == "prod":
            return {"k": "prod", "via": self.pick(["op", "ctor"]), "ch": [self.t_inv(n, d - 1), self.t_inv(n, d - 1)]}
        if k == "TH":
            return {"k": self.pick(["T", "H"]), "ch": [self.t_inv(n, d - 1)]}
        if k == "neg":
            return {"k": "neg", "ch": [self.t_inv(n, d - 1)]}
        if k == "bd":
            rs, mult = self._bd_parts(n)
            return {"k": "bd", "ch": [self.t_inv(s, d - 1) for s in rs], "mult": mult}
        if k == "scale":
            c = self.scalar(allow_zero=False)
            if complex(*(c["v"] if isinstance(c["v"], list) else (c["v"], 0))) == 0:
                c = {"t": "int", "v": -2}
            return {"k": "scale", "c": c, "side": self.pick("lr"), "ch": [self.t_inv(n, d - 1)]}
        a = self._split2(n)
        return {"k": "kron", "via": self.pick(["fn", "ctor"]), "ch": [self.t_inv(a, d - 1), self.t_inv(n // a, d - 1)]}

    def t_gen(self, n, d):
        return self.op(n, n, d)

    # ---------------------------------------------------------------- annotated structured operators under combinators
    def annotated(self, n, depth, wrappers=True, keep_shape=False):
        """A structured operator (Kronecker / BlockDiag / Tridiagonal / sums ... by construction Hermitian, positive definite
        or unitary) that carries a TRUE declaration - on its leaves and, possibly, on the composite itself - optionally
        placed under one combinator (transpose, adjoint, product, sum, Kronecker, block-diagonal, scalar multiple, a slice
        with equal or permuted index sets)."""
        trait = self.pick(["herm", "herm", "pd", "unitary"])
        base = self.sq(n, trait, depth)
        if base["k"] != "ann" and self.boolean():
            base = {"k": "ann", "a": {"herm": "SelfAdjoint", "pd": self.pick(["PSD", "SelfAdjoint"]), "unitary": "Unitary"}[trait], "ch": [base]}
        if not wrappers:
            return base
        w = self.pick(["none", "T", "H", "sum", "scale", "cong", "cong"] if keep_shape else
                      ["none", "none", "T", "H", "prod", "rprod", "sum", "kron", "bd", "scale", "slice", "cong", "cong"])
        if w == "cong":
            # congruence B K1 (K2) B^H with a lazy B (the same object on both ends) and one or two annotated cores
            r = n if keep_shape else self.integer(1, 4)
            B = {"k": "sum", "via": "op", "ch": [self.op(r, n, 0), self.op(r, n, 0)]}
            core = [base] + ([self.annotated(n, 0, wrappers=False)] if self.boolean() else [])
            return {"k": "cong", "form": self.pick(["H", "H", "T"]), "ch": [B] + core}
        if w == "none":
            return base
        if w in ("T", "H"):
            return {"k": w, "ch": [base]}
        if w == "prod":
            return {"k": "prod", "via": self.pick(["op", "ctor"]), "ch": [base, self.op(n, self.integer(1, 4), 1)]}
        if w == "rprod":
            return {"k": "prod", "via": self.pick(["op", "ctor"]), "ch": [self.op(self.integer(1, 4), n, 1), base]}
        if w == "sum":
            return {"k": "sum", "via": "op", "ch": [base, self.annotated(n, 0, wrappers=False) if self.boolean() else self.op(n, n, 1)]}
        if w == "kron":
            other = self.annotated(self.integer(1, 3), 0, wrappers=False) if self.boolean() else self.op(self.integer(1, 3), self.integer(1, 3), 1)
            return {"k": "kron", "via": "fn", "ch": [base, other] if self.boolean() else [other, base]}
        if w == "bd":
            other = self.annotated(self.integer(1, 3), 0, wrappers=False) if self.boolean() else self.op(self.integer(1, 3), self.integer(1, 3), 1)
            return {"k": "bd", "ch": [base, other], "mult": None}
        if w == "scale":
            return {"k": "scale", "c": {"t": self.pick(["int", "float"]), "v": self.pick([1, 2, 3])}, "side": self.pick("lr"), "ch": [base]}
        # slice: equal index sets, or the same positions in a different order on the two axes
        m = self.integer(1, n)
        pos = self.draw(st.lists(st.integers(0, n - 1), min_size=m, max_size=m, unique=True))
        cols = list(self.draw(st.permutations(pos))) if self.boolean() else list(pos)
        return {"k": "slice", "ch": [base], "s0": {"ix": [int(p) for p in pos]}, "s1": {"ix": [int(p) for p in cols]}}

    # ---------------------------------------------------------------- n x k with orthonormal columns
    def stiefel(self, n, k):
        cols = self.draw(st.lists(st.integers(0, n - 1), min_size=k, max_size=k, unique=True))
        dt = self.dtype()
        M = np.zeros((n, k), dtype=np.complex128)
        ph = [1, -1, 1j, -1j] if dt in CPLX else [1, -1]
        for j, i in enumerate(cols):
            M[i, j] = self.pick(ph)
        node = self._dense_like(M, dt)
        return {"k": "ann", "a": "Stiefel", "ch": [node]}
