"""cvh - cola verification harness (property-based testing / fuzzing). See DESIGN.md."""
