"""Dense oracles for the Krylov algorithms (C12-C15): matrix construction with controlled spectrum,
orthonormal Krylov bases, the CG / GMRES optimal iterates, and a product-counting operator wrapper."""
import numpy as np


def rand_unitary(n, seed, cplx):
    rng = np.random.default_rng(seed)
    Z = rng.standard_normal((n, n))
    if cplx:
        Z = Z + 1j * rng.standard_normal((n, n))
    Q, R = np.linalg.qr(Z)
    d = np.diag(R)
    return Q * (d / np.abs(d))


def spectrum(n, kind, kappa, seed):
    """n positive eigenvalues in [1, kappa] of the given distribution."""
    rng = np.random.default_rng(seed + 7)
    if n == 1:
        return np.array([float(kappa) ** 0.5 if kind != "uniform" else 1.0])
    if kind == "uniform":
        lam = np.linspace(1.0, kappa, n)
    elif kind == "geometric":
        lam = kappa ** (np.arange(n) / (n - 1))
    elif kind == "clustered":  # two tight clusters at the ends
        half = n // 2
        lam = np.concatenate([1.0 + 1e-3 * rng.random(half), kappa * (1 - 1e-3 * rng.random(n - half))])
    elif kind == "repeated":   # few distinct values
        vals = kappa ** (np.arange(min(3, n)) / max(min(3, n) - 1, 1))
        lam = vals[rng.integers(0, len(vals), size=n)]
        lam[0], lam[-1] = 1.0, kappa
    else:
        raise ValueError(kind)
    return np.sort(lam)


def hermitian(lam, seed, cplx):
    Q = rand_unitary(len(lam), seed, cplx)
    A = (Q * lam) @ Q.conj().T
    return (A + A.conj().T) / 2, Q


def nonnormal(lam, seed, cplx, cond_x=5.0):
    """X diag(lam) X^-1 with X = I + small random (cond(X) <~ cond_x)."""
    n = len(lam)
    rng = np.random.default_rng(seed + 13)
    E = rng.standard_normal((n, n)) + (1j * rng.standard_normal((n, n)) if cplx else 0)
    E = E / max(np.linalg.norm(E, 2), 1e-12) * (cond_x - 1) / (cond_x + 1)
    X = np.eye(n) + E
    return X @ np.diag(lam) @ np.linalg.inv(X), X


def krylov_basis(matvec, v, k, tol=1e-11):
    """Orthonormal basis of span{v, Bv, ..., B^(k-1) v} (Arnoldi, re-orthogonalised twice); stops at the grade."""
    n = v.shape[0]
    V = np.zeros((n, 0), dtype=np.result_type(v.dtype, np.float64))
    w = v.astype(V.dtype)
    scale = np.linalg.norm(w)
    if scale == 0:
        return V
    w, scale = w / scale, 1.0  # the Krylov space does not depend on the magnitude of v
    for _ in range(k):
        for _ in range(2):
            w = w - V @ (V.conj().T @ w)
        nw = np.linalg.norm(w)
        if nw <= tol * scale:
            break
        q = w / nw
        V = np.concatenate([V, q[:, None]], axis=1)
        w = matvec(q)
        scale = max(scale, np.linalg.norm(w))
    return V


def cg_optimal(A, Minv, b, x0, k):
    """argmin ||x - A^-1 b||_A over x0 + K_k(Minv A, Minv r0)."""
    r0 = b - A @ x0
    z0 = r0 if Minv is None else Minv @ r0
    mv = (lambda q: A @ q) if Minv is None else (lambda q: Minv @ (A @ q))
    V = krylov_basis(mv, z0, k)
    if V.shape[1] == 0:
        return x0.astype(np.result_type(A.dtype, b.dtype, np.float64))
    y = np.linalg.solve(V.conj().T @ A @ V, V.conj().T @ r0)
    return x0 + V @ y


def gmres_optimal(A, b, x0, m):
    """minimiser of ||b - A x|| over x0 + K_m(A, r0), and the minimal residual norm."""
    r0 = b - A @ x0
    V = krylov_basis(lambda q: A @ q, r0, m)
    if V.shape[1] == 0:
        return x0, float(np.linalg.norm(r0)), 0
    AV = A @ V
    y, *_ = np.linalg.lstsq(AV, r0, rcond=None)
    x = x0 + V @ y
    return x, float(np.linalg.norm(b - A @ x)), V.shape[1]


def anorm(A, e):
    return float(np.sqrt(abs(np.vdot(e, A @ e))))


def counting_operator(M, annotations=()):
    """A cola LinearOperator defined by matmat with the dense matrix M that counts products and columns."""
    import cola
    from cola.ops import LinearOperator

    class CountingOp(LinearOperator):
        def __init__(self, M):
            super().__init__(M.dtype, M.shape)
            self.M = M
            self.calls = 0
            self.cols = 0

        def _matmat(self, X):
            self.calls += 1
            self.cols += X.shape[1] if X.ndim > 1 else 1
            dt = np.result_type(self.M.dtype, X.dtype)
            return self.M.astype(dt) @ X.astype(dt)

    op = CountingOp(M)
    for a in annotations:
        op.annotations.add(getattr(cola, a))
    return op
