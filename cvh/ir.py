"""Operator-expression IR (DESIGN 3.2/3.3): JSON-able trees, a builder into cola objects that
uses only public constructors / combinators, and an independent NumPy reference interpreter."""
import numpy as np

DT = {"f4": np.float32, "f8": np.float64, "c8": np.complex64, "c16": np.complex128, "i8": np.int64}
DTN = {np.dtype(v): k for k, v in DT.items()}


# ----------------------------------------------------------------------------- arrays / scalars
def enc(a):
    a = np.asarray(a)
    dt = DTN[a.dtype]
    flat = a.reshape(-1)
    if a.dtype.kind == "c":
        v = [[float(z.real), float(z.imag)] for z in flat]
    elif a.dtype.kind == "i":
        v = [int(z) for z in flat]
    else:
        v = [float(z) for z in flat]
    return {"dt": dt, "sh": list(a.shape), "v": v}


def dec(d):
    dt = DT[d["dt"]]
    if d["dt"] in ("c8", "c16"):
        flat = np.array([complex(p[0], p[1]) for p in d["v"]], dtype=dt)
    else:
        flat = np.array(d["v"], dtype=dt)
    a = flat.reshape(d["sh"])
    return np.asfortranarray(a) if d.get("order") == "F" else a  # (same values, column-major memory layout)


def dec_scalar(s):
    """{'t': type-tag, 'v': number | [re, im]} -> python / numpy scalar."""
    t, v = s["t"], s["v"]
    z = complex(v[0], v[1]) if isinstance(v, (list, tuple)) else v
    if t == "int":
        return int(z)
    if t == "float":
        return float(z)
    if t == "complex":
        return complex(z)
    if t in DT:  # numpy scalar
        return DT[t](z)
    if t.startswith("a0"):  # 0-d array
        return np.array(z, dtype=DT[t[2:]])
    raise ValueError(t)


def scalar_value(s):
    v = s["v"]
    return complex(v[0], v[1]) if isinstance(v, (list, tuple)) else v


def scalar_is_complex(s):
    return s["t"] in ("complex", "c8", "c16", "a0c8", "a0c16")


def cplx_of(dt):
    return np.result_type(dt, np.complex64)


# ----------------------------------------------------------------------------- harness callables
class PolyMap:
    """f(x)_i = sum_j B_ij x_j + sum_jk C_ijk x_j x_k  (integer coefficients -> exact Jacobian)."""
    def __init__(self, B, C):
        self.B, self.C = B, C

    def __call__(self, x):
        return self.B @ x + np.einsum("ijk,j,k->i", self.C, x, x)

    def jac(self, x):
        return self.B + np.einsum("ijk,k->ij", self.C, x) + np.einsum("ikj,k->ij", self.C, x)

    def jvp(self, x, t):
        return self.jac(x).astype(np.result_type(x, t)) @ t

    def vjp(self, x, v):
        return v @ self.jac(x).astype(np.result_type(x, v))


class ScalarPoly:
    """f(x) = x^T S x + sum_j c_j x_j^3 ;  Hessian = S + S^T + diag(6 c x)."""
    def __init__(self, S, c):
        self.S, self.c = S, c

    def __call__(self, x):
        return x @ self.S @ x + (self.c * x**3).sum()

    def hess(self, x):
        return self.S + self.S.T + np.diag(6 * self.c * x)

    def grad(self):
        outer = self

        class G:
            def __call__(self, x):
                return (outer.S + outer.S.T) @ x + 3 * outer.c * x**2

            def jvp(self, x, t):
                return outer.hess(x).astype(np.result_type(x, t)) @ t

        return G()


def kernel_fn(name):
    if name == "dot1":
        return lambda a, b: a @ b.T + 1
    if name == "dot":
        return lambda a, b: a @ b.T
    if name == "asym":  # not symmetric in its arguments: k(a, b) = a.b + 2 sum(a) - sum(b)
        return lambda a, b: a @ b.T + 2 * a.sum(-1)[:, None] - b.sum(-1)[None, :]
    raise ValueError(name)


# ----------------------------------------------------------------------------- index helpers
def dec_index(s):
    """{'sl': [start, stop, step]} | {'ix': [...]} | {'i': int} | {'li': [...]} -> python index."""
    if "sl" in s:
        return slice(*s["sl"])
    if "ix" in s:
        return np.array(s["ix"], dtype={"i1": np.int8, "i2": np.int16, "i4": np.int32, "u1": np.uint8}.get(s.get("dt"), np.int64))
    if "i" in s:
        return int(s["i"])
    if "li" in s:
        return list(s["li"])
    raise ValueError(s)


def hh_beta(ir):
    """Householder coefficient: a float, or [re, im] for a complex one (complex vectors only)."""
    b = ir["beta"]
    return complex(*b) if isinstance(b, (list, tuple)) else b


# ----------------------------------------------------------------------------- builder (cola)
def _shared(ir, ch):
    """children of a node, with ir['share'] = [[i, j], ...] making child j the very same object as child i"""
    for i, j in ir.get("share", []):
        ch[j] = ch[i]
    return ch


def build(ir):
    """IR -> cola LinearOperator, through public constructors and combinators only."""
    import cola
    from cola import ops
    k = ir["k"]
    ch = _shared(ir, [build(c) for c in ir.get("ch", [])])
    if k == "dense":
        return ops.Dense(dec(ir["a"]))
    if k == "lazify":
        return cola.lazify(dec(ir["a"]))
    if k == "arr":  # a plain array operand (only meaningful below a combinator that lazifies it)
        return dec(ir["a"])
    if k == "relazify":
        return cola.lazify(cola.densify(ch[0]))
    if k == "rdiv":
        return dec_scalar(ir["c"]) / ch[0]
    if k == "tri":
        return ops.Triangular(dec(ir["a"]), lower=ir["lower"])
    if k == "sparse":
        return ops.Sparse(dec(ir["data"]), np.array(ir["rows"], dtype=np.int64),
                          np.array(ir["cols"], dtype=np.int64), shape=tuple(ir["shape"]))
    if k == "smul":
        return ops.ScalarMul(dec_scalar(ir["c"]), (ir["n"], ir["n"]), dtype=DT[ir["dt"]])
    if k == "eye":
        return ops.Identity((ir["n"], ir["n"]), DT[ir["dt"]])
    if k == "diag":
        return ops.Diagonal(dec(ir["d"]))
    if k == "tridiag":
        al = dec(ir["al"])
        # 'same_band': the caller hands the very same array object for the sub- and the super-diagonal
        return ops.Tridiagonal(al, dec(ir["be"]), al if ir.get("same_band") else dec(ir["ga"]))
    if k == "viewpair":  # block diagonal of two Dense operators wrapping two views of ONE buffer (B and B^T)
        B = dec(ir["a"])
        return ops.BlockDiag(ops.Dense(B), ops.Dense(B.T))
    if k == "perm":
        dt = ir.get("dt")
        return ops.Permutation(np.array(ir["p"], dtype=np.int64), dtype=None if dt is None else DT[dt])
    if k == "hh":
        return ops.Householder(dec(ir["v"]), beta=hh_beta(ir))
    if k == "kernel":
        return ops.Kernel(dec(ir["x1"]), dec(ir["x2"]), kernel_fn(ir["fn"]), ir["bs1"], ir["bs2"])
    if k == "fft":
        return ops.FFT(ir["n"], dtype=DT[ir["dt"]])
    if k == "jac":
        return ops.Jacobian(PolyMap(dec(ir["B"]), dec(ir["C"])), dec(ir["x"]))
    if k == "hess":
        return ops.Hessian(ScalarPoly(dec(ir["S"]), dec(ir["c"])), dec(ir["x"]))
    if k == "matmat":
        a = dec(ir["a"])

        def mm(X, a=a):
            dt = np.result_type(a, X)
            return a.astype(dt) @ X.astype(dt)

        return cola.ops.LinearOperator(a.dtype, a.shape, matmat=mm)
    if k == "prod":
        if ir.get("via") == "ctor":
            return ops.Product(*ch)
        out = ch[0]
        for c in ch[1:]:
            out = out @ c
        return out
    if k == "sum":
        if ir.get("via") == "ctor":
            return ops.Sum(*ch)
        if ir.get("via") == "builtin":
            return sum(ch)
        out = ch[0]
        for c in ch[1:]:
            out = out + c
        return out
    if k == "kron":
        if ir.get("via") == "ctor":
            return ops.Kronecker(*ch)
        out = ch[0]
        for c in ch[1:]:
            out = cola.kron(out, c)
        return out
    if k == "kronsum":
        if ir.get("via") == "ctor":
            return ops.KronSum(*ch)
        out = ch[0]
        for c in ch[1:]:
            out = cola.kronsum(out, c)
        return out
    if k == "bd":
        mult = ir.get("mult")
        if mult is None:
            return cola.block_diag(*ch)
        return ops.BlockDiag(*ch, multiplicities=list(mult))
    if k == "T":
        return ch[0].T
    if k == "H":
        return ch[0].H
    if k == "gram":  # the same object on both sides
        A = ch[0]
        return {"HA": lambda: A.H @ A, "AH": lambda: A @ A.H, "TA": lambda: A.T @ A, "AT": lambda: A @ A.T}[ir["form"]]()
    if k == "inv":  # the lazy inverse operator returned by cola.linalg.inv (default algorithm)
        return cola.linalg.inv(ch[0])
    if k == "cong":  # congruence B @ M1 @ ... @ Mk @ B^H (or B^T): the same object B on both ends
        out = ch[0]
        for M in ch[1:]:
            out = out @ M
        return out @ (ch[0].H if ir.get("form", "H") == "H" else ch[0].T)
    if k == "slice":
        return ch[0][dec_index(ir["s0"]), dec_index(ir["s1"])]
    if k == "cat":
        return ops.Concatenated(*ch, axis=ir["axis"])
    if k == "scale":
        c = dec_scalar(ir["c"])
        return c * ch[0] if ir.get("side", "l") == "l" else ch[0] * c
    if k == "neg":
        return -ch[0]
    if k == "div":
        return ch[0] / dec_scalar(ir["c"])
    if k == "sub":
        return ch[0] - ch[1]
    if k == "nodisp":
        return cola.no_dispatch(ch[0])
    if k == "ann":
        return getattr(cola, ir["a"])(ch[0])
    raise ValueError(f"unknown kind {k}")


# ----------------------------------------------------------------------------- reference interpreter
class Ref:
    """Reference denotation: matrix in the expected dtype, |.|-bound for rounding, exactness flag."""
    __slots__ = ("M", "Mabs", "exact")

    def __init__(self, M, Mabs=None, exact=None):
        self.M = M
        self.Mabs = np.abs(M).astype(np.float64) if Mabs is None else Mabs
        if exact is None:
            exact = bool(np.all(np.isfinite(M)) and np.all(M.real == np.round(M.real)) and np.all(M.imag == np.round(M.imag)))
        self.exact = exact

    @property
    def dtype(self):
        return self.M.dtype

    @property
    def shape(self):
        return self.M.shape


def _kron(A, B):  # deliberately not np.kron
    return np.einsum("ij,kl->ikjl", A, B).reshape(A.shape[0] * B.shape[0], A.shape[1] * B.shape[1])


def _blockdiag(blocks, dtype):
    r = sum(b.shape[0] for b in blocks)
    c = sum(b.shape[1] for b in blocks)
    out = np.zeros((r, c), dtype=dtype)
    i = j = 0
    for b in blocks:
        out[i:i + b.shape[0], j:j + b.shape[1]] = b
        i += b.shape[0]
        j += b.shape[1]
    return out


def _cast(R, dt):
    return Ref(R.M.astype(dt), R.Mabs, R.exact)


def denote(ir):
    k = ir["k"]
    ch = _shared(ir, [denote(c) for c in ir.get("ch", [])])
    if k in ("dense", "lazify", "tri", "matmat", "arr"):
        return Ref(dec(ir["a"]))
    if k == "relazify":
        return ch[0]
    if k == "rdiv":
        s = ir["c"]
        dt = ch[0].dtype
        if scalar_is_complex(s) and dt.kind != "c":
            dt = cplx_of(dt)
        Minv = np.linalg.inv(ch[0].M.astype(np.result_type(dt, np.float64)))
        c = scalar_value(s)
        return Ref((c * Minv).astype(dt), np.abs(c * Minv), False)
    if k == "sparse":
        data = dec(ir["data"])
        M = np.zeros(tuple(ir["shape"]), dtype=data.dtype)
        for v, i, j in zip(data, ir["rows"], ir["cols"]):
            M[i, j] += v
        return Ref(M)
    if k == "smul":
        dt = DT[ir["dt"]]
        return Ref((np.eye(ir["n"]) * scalar_value(ir["c"])).astype(dt))
    if k == "eye":
        return Ref(np.eye(ir["n"], dtype=DT[ir["dt"]]))
    if k == "diag":
        d = dec(ir["d"])
        M = np.zeros((len(d), len(d)), dtype=d.dtype)
        M[np.arange(len(d)), np.arange(len(d))] = d
        return Ref(M)
    if k == "tridiag":
        al, be, ga = dec(ir["al"]).reshape(-1), dec(ir["be"]).reshape(-1), dec(ir["ga"]).reshape(-1)
        n = len(be)
        M = np.zeros((n, n), dtype=be.dtype)
        for i in range(n):
            M[i, i] = be[i]
            if i + 1 < n:
                M[i + 1, i] = al[i]
                M[i, i + 1] = ga[i]
        return Ref(M)
    if k == "perm":
        p = ir["p"]
        dt = DT[ir["dt"]] if ir.get("dt") else np.float32
        M = np.zeros((len(p), len(p)), dtype=dt)
        for i, pi in enumerate(p):
            M[i, pi] = 1
        return Ref(M)
    if k == "viewpair":
        B = dec(ir["a"])
        return Ref(_blockdiag([B, B.T.copy()], B.dtype), _blockdiag([np.abs(B), np.abs(B.T)], np.float64))
    if k == "hh":
        v = dec(ir["v"])
        beta = hh_beta(ir)
        M = np.eye(v.shape[0], dtype=v.dtype) - np.asarray(beta, dtype=v.dtype) * (v @ v.conj().T)
        return Ref(M.astype(v.dtype), Mabs=np.eye(v.shape[0]) + abs(beta) * np.abs(v) @ np.abs(v).T)
    if k == "kernel":
        x1, x2 = dec(ir["x1"]), dec(ir["x2"])
        return Ref(kernel_fn(ir["fn"])(x1, x2).astype(x1.dtype))
    if k == "fft":
        n = ir["n"]
        jk = np.outer(np.arange(n), np.arange(n))
        return Ref((np.exp(-2j * np.pi * jk / n) / np.sqrt(n)).astype(DT[ir["dt"]]), exact=False)
    if k == "jac":
        x = dec(ir["x"])
        return Ref(PolyMap(dec(ir["B"]), dec(ir["C"])).jac(x).astype(x.dtype))
    if k == "hess":
        x = dec(ir["x"])
        return Ref(ScalarPoly(dec(ir["S"]), dec(ir["c"])).hess(x).astype(x.dtype))
    if k == "prod":
        dt = np.result_type(*[c.dtype for c in ch])
        M, Mabs = ch[0].M.astype(dt), ch[0].Mabs
        for c in ch[1:]:
            M, Mabs = M @ c.M.astype(dt), Mabs @ c.Mabs
        return Ref(M, Mabs, all(c.exact for c in ch))
    if k in ("sum", "sub"):
        dt = np.result_type(*[c.dtype for c in ch])
        sgn = [1] + [(-1 if k == "sub" else 1)] * (len(ch) - 1)
        M = sum(s * c.M.astype(dt) for s, c in zip(sgn, ch))
        return Ref(M.astype(dt), sum(c.Mabs for c in ch), all(c.exact for c in ch))
    if k == "kron":
        dt = np.result_type(*[c.dtype for c in ch])
        M, Mabs = ch[0].M.astype(dt), ch[0].Mabs
        for c in ch[1:]:
            M, Mabs = _kron(M, c.M.astype(dt)), _kron(Mabs, c.Mabs)
        return Ref(M, Mabs, all(c.exact for c in ch))
    if k == "kronsum":
        dt = np.result_type(*[c.dtype for c in ch])
        ns = [c.shape[0] for c in ch]
        N = int(np.prod(ns))
        M, Mabs = np.zeros((N, N), dtype=dt), np.zeros((N, N))
        for i, c in enumerate(ch):
            left, right = int(np.prod(ns[:i])), int(np.prod(ns[i + 1:]))
            M = M + _kron(_kron(np.eye(left, dtype=dt), c.M.astype(dt)), np.eye(right, dtype=dt))
            Mabs = Mabs + _kron(_kron(np.eye(left), c.Mabs), np.eye(right))
        return Ref(M, Mabs, all(c.exact for c in ch))
    if k == "bd":
        mult = ir.get("mult") or [1] * len(ch)
        dt = np.result_type(*[c.dtype for c in ch])
        blocks = [c.M for c, m in zip(ch, mult) for _ in range(m)]
        ablocks = [c.Mabs for c, m in zip(ch, mult) for _ in range(m)]
        return Ref(_blockdiag(blocks, dt), _blockdiag(ablocks, np.float64), all(c.exact for c in ch))
    if k == "T":
        return Ref(ch[0].M.T.copy(), ch[0].Mabs.T, ch[0].exact)
    if k == "H":
        return Ref(ch[0].M.conj().T.copy(), ch[0].Mabs.T, ch[0].exact)
    if k == "gram":
        M, Ma = ch[0].M, ch[0].Mabs
        f = ir["form"]
        out = {"HA": M.conj().T @ M, "AH": M @ M.conj().T, "TA": M.T @ M, "AT": M @ M.T}[f]
        return Ref(out, Ma.T @ Ma if f in ("HA", "TA") else Ma @ Ma.T, ch[0].exact)
    if k == "inv":
        Mi = np.linalg.inv(ch[0].M.astype(np.complex128 if ch[0].M.dtype.kind == "c" else np.float64)).astype(ch[0].M.dtype)
        return Ref(Mi, np.abs(Mi).astype(np.float64) * np.linalg.cond(ch[0].M.astype(np.complex128)), False)
    if k == "cong":
        M, Ma = ch[0].M, ch[0].Mabs
        for c in ch[1:]:
            M, Ma = M @ c.M, Ma @ c.Mabs
        last = ch[0].M.conj().T if ir.get("form", "H") == "H" else ch[0].M.T
        return Ref(M @ last, Ma @ ch[0].Mabs.T, all(c.exact for c in ch))
    if k == "slice":
        s0, s1 = dec_index(ir["s0"]), dec_index(ir["s1"])
        return Ref(ch[0].M[s0][:, s1], ch[0].Mabs[s0][:, s1], ch[0].exact)
    if k == "cat":
        dt = np.result_type(*[c.dtype for c in ch])
        return Ref(np.concatenate([c.M.astype(dt) for c in ch], axis=ir["axis"]),
                   np.concatenate([c.Mabs for c in ch], axis=ir["axis"]), all(c.exact for c in ch))
    if k in ("scale", "div"):
        s = ir["c"]
        c = scalar_value(s)
        dt = ch[0].dtype
        if scalar_is_complex(s) and dt.kind != "c":
            dt = cplx_of(dt)
        if k == "div":
            c = 1 / c
            exact = False
        else:
            exact = ch[0].exact and complex(c).real == round(complex(c).real) and complex(c).imag == round(complex(c).imag)
        return Ref((ch[0].M.astype(np.result_type(dt, np.float64)) * c).astype(dt), ch[0].Mabs * abs(c), exact)
    if k == "neg":
        return Ref(-ch[0].M, ch[0].Mabs, ch[0].exact)
    if k in ("nodisp", "ann"):
        return ch[0]
    raise ValueError(f"unknown kind {k}")


def naive_entry(ir, i, j):
    """Second, element-wise evaluator used only by the self-test (subset of kinds)."""
    k = ir["k"]
    ch = ir.get("ch", [])
    if k in ("dense", "lazify", "tri", "matmat"):
        return dec(ir["a"])[i, j]
    if k == "prod":
        assert len(ch) == 2
        inner = shape_of(ch[0])[1]
        return sum(naive_entry(ch[0], i, t) * naive_entry(ch[1], t, j) for t in range(inner))
    if k == "sum":
        return sum(naive_entry(c, i, j) for c in ch)
    if k == "kron":
        assert len(ch) == 2
        r, c = shape_of(ch[1])
        return naive_entry(ch[0], i // r, j // c) * naive_entry(ch[1], i % r, j % c)
    if k == "kronsum":
        assert len(ch) == 2
        n2 = shape_of(ch[1])[0]
        a = naive_entry(ch[0], i // n2, j // n2) if i % n2 == j % n2 else 0
        b = naive_entry(ch[1], i % n2, j % n2) if i // n2 == j // n2 else 0
        return a + b
    if k == "T":
        return naive_entry(ch[0], j, i)
    if k == "H":
        return np.conj(naive_entry(ch[0], j, i))
    if k == "bd":
        mult = ir.get("mult") or [1] * len(ch)
        r0 = c0 = 0
        for c, m in zip(ch, mult):
            r, cc = shape_of(c)
            for _ in range(m):
                if r0 <= i < r0 + r and c0 <= j < c0 + cc:
                    return naive_entry(c, i - r0, j - c0)
                r0 += r
                c0 += cc
        return 0
    if k == "diag":
        return dec(ir["d"])[i] if i == j else 0
    if k == "eye":
        return 1 if i == j else 0
    raise NotImplementedError(k)


def shape_of(ir):
    return denote(ir).shape


def nodes(ir):
    yield ir
    for c in ir.get("ch", []):
        yield from nodes(c)


def kinds(ir):
    return sorted({n["k"] for n in nodes(ir)})


def size(ir):
    return sum(1 for _ in nodes(ir))


def depth(ir):
    return 1 + max([depth(c) for c in ir.get("ch", [])], default=0)


def tree_eps(ir):
    """Largest machine epsilon among the dtypes appearing anywhere in the tree (leaf payloads, declared dtypes)."""
    e = 0.0
    for n in nodes(ir):
        for key, v in n.items():
            dt = None
            if isinstance(v, dict) and "dt" in v and "v" in v:
                dt = v["dt"]
            elif key == "dt":
                dt = v or "f4"
            elif key == "c" and isinstance(v, dict) and v.get("t", "").lstrip("a0") in DT:
                dt = v["t"].lstrip("a0")
            if dt in DT and dt != "i8":
                e = max(e, float(np.finfo(DT[dt]).eps))
    return e or float(np.finfo(np.float64).eps)


def selftest():
    A = {"k": "dense", "a": enc(np.arange(6.).reshape(2, 3))}
    B = {"k": "dense", "a": enc(np.arange(6.).reshape(3, 2) - 2)}
    C = {"k": "dense", "a": enc((np.arange(4.).reshape(2, 2) + 1j).astype(np.complex128))}
    D = {"k": "diag", "d": enc(np.array([2., -1.]))}
    trees = [
        {"k": "prod", "ch": [A, B]},
        {"k": "kron", "ch": [A, C]},
        {"k": "kronsum", "ch": [C, D]},
        {"k": "bd", "ch": [A, C], "mult": [2, 1]},
        {"k": "sum", "ch": [{"k": "H", "ch": [C]}, D, {"k": "T", "ch": [{"k": "prod", "ch": [A, B]}]}]},
    ]
    for t in trees:
        R = denote(t)
        for i in range(R.shape[0]):
            for j in range(R.shape[1]):
                assert R.M[i, j] == naive_entry(t, i, j), (t["k"], i, j)
    return True
