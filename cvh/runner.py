"""Runner: seeding, 16-way sharding, statistics, evidence, replay and the known-findings protocol
(DESIGN 3.5 / 3.6).  Usage (through ./check):

    python -m cvh.runner C01 [--tier quick|thorough] [--replay FILE] [--survey] [--n N] [--shards K]

Exit codes: 0 held on everything explored (KNOWN-FINDING lines allowed); 1 + VIOLATION line;
2 harness error (never printed as a violation)."""
import argparse
import collections
import hashlib
import importlib
import json
import multiprocessing as mp
import os
import re
import subprocess
import sys
import time
import traceback

ROOT = os.path.dirname(os.path.dirname(os.path.abspath(__file__)))
COLA_PATH = os.environ.get("VERIF_COLA_PATH", "/repo")


class HarnessError(Exception):
    pass


# ----------------------------------------------------------------------------- outcome objects
class Outcome:
    """What one generated case produced."""
    def __init__(self):
        self.labels = []
        self.nontrivial = False
        self.failures = []  # list of dicts {sub, site, man, detail}
        self.inconclusive = 0
        self.refusals = 0
        self.notes = []  # uncategorised exceptions etc. (tallied, never alarms)

    def fail(self, sub, site, man, detail=""):
        self.failures.append({"sub": sub, "site": site, "man": man, "detail": str(detail)[:400]})

    def label(self, *ls):
        self.labels.extend(ls)


def sig(f):
    return f"{f['sub']}|{f['site']}|{f['man']}"


def canon(case):
    return json.dumps(case, sort_keys=True, separators=(",", ":"))


def case_hash(case):
    return hashlib.blake2b(canon(case).encode(), digest_size=8).hexdigest()


# ----------------------------------------------------------------------------- known findings
def load_findings(prop_id):
    path = os.path.join(ROOT, "known_findings.json")
    if not os.path.exists(path):
        return []
    with open(path) as fh:
        data = json.load(fh)
    return [f for f in data.get("findings", []) if f.get("property") == prop_id]


def matches(finding, failure):
    m = finding.get("match", {})
    for key in ("sub", "site", "man"):
        pat = m.get(key)
        if pat is not None and not re.fullmatch(pat, failure[key]):
            return False
    dpat = m.get("detail")
    if dpat is not None and not re.search(dpat, failure.get("detail", "")):
        return False
    return True


def known_id(open_findings, failure):
    for f in open_findings:
        if matches(f, failure):
            return f["id"]
    return None


# ----------------------------------------------------------------------------- environment
def setup_cola():
    if COLA_PATH not in sys.path:
        sys.path.insert(0, COLA_PATH)
    import warnings
    warnings.filterwarnings("ignore")
    import logging
    logging.disable(logging.WARNING)
    import cola
    where = os.path.dirname(os.path.abspath(cola.__file__))
    if not where.startswith(os.path.abspath(COLA_PATH)):
        raise HarnessError(f"cola imported from {where}, expected under {COLA_PATH}")
    from cvh import shim
    shim.install()
    return cola


def cola_commit():
    try:
        out = subprocess.run(["git", "-C", COLA_PATH, "rev-parse", "--short", "HEAD"], capture_output=True, text=True)
        dirty = subprocess.run(["git", "-C", COLA_PATH, "status", "--porcelain", "--untracked-files=no"],
                               capture_output=True, text=True).stdout.strip()
        return out.stdout.strip() + ("+dirty" if dirty else "")
    except Exception:
        return "unknown"


def load_prop(prop_id):
    return importlib.import_module(f"cvh.props.{prop_id.lower()}")


def run_case(mod, case):
    """Run the property's check on one case; anything escaping is a harness error."""
    out = Outcome()
    mod.check(case, out)
    return out


# ----------------------------------------------------------------------------- shard worker
def shard_seed(seed, shard, prop_id):
    h = hashlib.sha256(f"{prop_id}:{seed}:{shard}".encode()).digest()
    return int.from_bytes(h[:8], "big")


def run_shard(args):
    prop_id, tier, seed, shard, n_examples, survey, budget_s, opts = args
    try:
        return _run_shard(prop_id, tier, seed, shard, n_examples, survey, budget_s, opts)
    except BaseException as e:  # harness error: report, never a violation
        return {"harness_error": f"shard {shard}: {type(e).__name__}: {e}\n{traceback.format_exc()}"}


def _run_shard(prop_id, tier, seed, shard, n_examples, survey, budget_s, opts):
    import hypothesis
    from hypothesis import HealthCheck, Phase, Verbosity, given, settings
    setup_cola()
    mod = load_prop(prop_id)
    if hasattr(mod, "configure"):
        mod.configure(tier, opts)
    open_findings = [f for f in load_findings(prop_id) if f.get("status") == "open"]
    st = {
        "evaluations": 0, "nontrivial": set(), "labels": collections.Counter(), "samples": [],
        "excluded_known": collections.Counter(), "inconclusive": 0, "refusals": 0, "notes": collections.Counter(),
        "violation": None, "budget_hit": False, "survey": {}, "t0": time.time(), "shrinking": False,
    }

    class Violation(Exception):
        pass

    strategy = mod.strategy(tier, shard) if mod.strategy.__code__.co_argcount >= 2 else mod.strategy(tier)

    def body(case):
        if not st["shrinking"] and time.time() - st["t0"] > budget_s:
            st["budget_hit"] = True
            return
        out = run_case(mod, case)
        st["evaluations"] += 1
        for l in out.labels:
            st["labels"][l] += 1
        st["inconclusive"] += out.inconclusive
        st["refusals"] += out.refusals
        for n in out.notes:
            st["notes"][n] += 1
        if out.nontrivial:
            st["nontrivial"].add(case_hash(case))
            if len(st["samples"]) < 3 and len(canon(case)) < 3000:
                st["samples"].append(case)
        unknown = []
        for f in out.failures:
            kid = known_id(open_findings, f)
            if kid is not None:
                st["excluded_known"][kid] += 1
            else:
                unknown.append(f)
        if unknown:
            if survey:
                for f in unknown:
                    s = sig(f)
                    cur = st["survey"].get(s)
                    L = len(canon(case))
                    if cur is None or L < cur["len"]:
                        st["survey"][s] = {"len": L, "case": case, "failure": f, "count": (cur["count"] if cur else 0)}
                    st["survey"][s]["count"] += 1
                return
            st["violation"] = {"case": case, "failures": unknown}
            st["shrinking"] = True
            raise Violation(sig(unknown[0]))

    phases = [Phase.generate] if survey else [Phase.generate, Phase.shrink]
    test = settings(max_examples=n_examples, database=None, deadline=None, derandomize=False,
                    report_multiple_bugs=False, suppress_health_check=list(HealthCheck), phases=phases,
                    verbosity=Verbosity.quiet, print_blob=False)(given(strategy)(body))
    test = hypothesis.seed(shard_seed(seed, shard, prop_id))(test)
    try:
        test()
    except Violation:
        pass
    except hypothesis.errors.Flaky as e:  # the failing case did not reproduce: keep what we saw
        st["notes"]["hypothesis-flaky"] += 1
        if st["violation"] is None:
            raise HarnessError(f"flaky without recorded failure: {e}")
    res = {k: st[k] for k in ("evaluations", "inconclusive", "refusals", "violation", "budget_hit", "survey", "samples")}
    res["nontrivial"] = sorted(st["nontrivial"])
    res["labels"] = dict(st["labels"])
    res["excluded_known"] = dict(st["excluded_known"])
    res["notes"] = dict(st["notes"])
    res["wall"] = time.time() - st["t0"]
    return res


# ----------------------------------------------------------------------------- replay helpers
def replay_file(mod, path, open_findings):
    with open(path) as fh:
        rec = json.load(fh)
    out = run_case(mod, rec["case"])
    unknown = [f for f in out.failures if known_id(open_findings, f) is None]
    return rec, out, unknown


def write_replay(prop_id, tier, seed, viol, tag=""):
    d = os.path.join(ROOT, "replays")
    os.makedirs(d, exist_ok=True)
    h = case_hash(viol["case"])
    path = os.path.join(d, f"{prop_id}_{h}{tag}.json")
    rec = {"property": prop_id, "tier": tier, "seed": seed, "cola_commit": cola_commit(),
           "failures": viol["failures"], "case": viol["case"]}
    with open(path, "w") as fh:
        json.dump(rec, fh, indent=1, sort_keys=True)
    return os.path.relpath(path, ROOT)


def run_fuzz(prop_id, tier, seed, seconds, violations, procs=8):
    """Run cvh.fuzz in `procs` parallel processes; returns merged statistics, appends violations."""
    import tempfile
    deps = os.path.join(ROOT, ".deps")
    if not os.path.isdir(os.path.join(deps, "atheris")):
        return {"skipped": "atheris not installed (.deps missing: run setup.sh)"}
    tmp = tempfile.mkdtemp(prefix=f"cvh-fuzz-{prop_id}-")
    env = dict(os.environ, PYTHONPATH=ROOT + os.pathsep + os.environ.get("PYTHONPATH", ""))
    ps = []
    for i in range(procs):
        stats = os.path.join(tmp, f"stats{i}.json")
        cmd = [sys.executable, "-m", "cvh.fuzz", prop_id, "--seconds", str(seconds), "--stats", stats, "--seed", str(seed * 100 + i + 1),
               "--tier", tier, "--corpus", os.path.join(tmp, f"corpus{i}")]
        ps.append((subprocess.Popen(cmd, stdout=subprocess.PIPE, stderr=subprocess.DEVNULL, text=True, env=env, cwd=ROOT), stats))
    merged = {"engine": "atheris (libFuzzer) driving the module's Hypothesis strategy via fuzz_one_input", "processes": procs,
              "seconds_each": seconds, "evaluations": 0, "distinct_nontrivial": 0, "excluded_known": 0, "crashes": 0}
    for proc, stats in ps:
        try:
            out, _ = proc.communicate(timeout=seconds + 600)
        except subprocess.TimeoutExpired:
            proc.kill()
            out = ""
        for line in (out or "").splitlines():
            if line.startswith("VIOLATION"):
                m = re.match(r"VIOLATION property=\S+ replay=(\S+)\s+# (.*)", line)
                if m:
                    violations.append((m.group(2), m.group(1)))
        if proc.returncode not in (0, 1):
            merged["crashes"] += 1
        try:
            with open(stats) as fh:
                st = json.load(fh)
            for k in ("evaluations", "distinct_nontrivial", "excluded_known"):
                merged[k] += st.get(k, 0)
        except Exception:
            pass
    import shutil
    shutil.rmtree(tmp, ignore_errors=True)
    return merged


# ----------------------------------------------------------------------------- main
def main(argv=None):
    ap = argparse.ArgumentParser()
    ap.add_argument("prop")
    ap.add_argument("--tier", default=os.environ.get("VERIF_TIER", "quick"), choices=["quick", "thorough"])
    ap.add_argument("--replay")
    ap.add_argument("--survey", action="store_true", help="triage mode: bucket all failure signatures, no shrinking")
    ap.add_argument("--n", type=int, help="override total number of generated cases")
    ap.add_argument("--shards", type=int, default=int(os.environ.get("VERIF_SHARDS", "16")))
    ap.add_argument("--opt", action="append", default=[])
    a = ap.parse_args(argv)
    prop_id = a.prop.upper()
    seed = int(os.environ.get("VERIF_SEED", "1") or 1)
    t0 = time.time()
    try:
        return _main(a, prop_id, seed, t0)
    except HarnessError as e:
        print(f"HARNESS-ERROR property={prop_id}: {e}", file=sys.stderr)
        return 2
    except Exception:
        print(f"HARNESS-ERROR property={prop_id}:\n{traceback.format_exc()}", file=sys.stderr)
        return 2


def _main(a, prop_id, seed, t0):
    setup_cola()
    from cvh import ir, shim
    shim.selftest()
    ir.selftest()
    mod = load_prop(prop_id)
    opts = dict(o.split("=", 1) if "=" in o else (o, "1") for o in a.opt)
    if hasattr(mod, "configure"):
        mod.configure(a.tier, opts)
    findings = load_findings(prop_id)
    open_findings = [f for f in findings if f.get("status") == "open"]

    if a.replay:
        rec, out, unknown = replay_file(mod, a.replay, open_findings)
        for f in out.failures:
            print("FAILURE", json.dumps(f, sort_keys=True))
        if unknown:
            print(f"VIOLATION property={prop_id} replay={a.replay}")
            return 1
        print(f"replay of {a.replay}: {'only known findings' if out.failures else 'no failure'}")
        return 0

    violations = []  # (signature, replay path)
    # 1. open findings: replay their stored inputs, announce the ones that still fail
    known_status = {}
    for f in open_findings:
        path = os.path.join(ROOT, f["replay"])
        rec, out, unknown = replay_file(mod, path, open_findings)
        still = [x for x in out.failures if matches(f, x)]
        known_status[f["id"]] = bool(still)
        if still:
            print(f"KNOWN-FINDING: property={prop_id} {f['id']}: {f['what']}")
        for x in unknown:  # the stored input now fails in a way the file does not list
            violations.append((sig(x), os.path.relpath(path, ROOT)))
    # 2. regression corpus (incl. inputs of fixed findings): any failure is a violation
    cdir = os.path.join(ROOT, "corpus")
    corpus_n = 0
    for fn in sorted(os.listdir(cdir)) if os.path.isdir(cdir) else []:
        if not fn.startswith(prop_id + "_") or not fn.endswith(".json"):
            continue
        corpus_n += 1
        rec, out, unknown = replay_file(mod, os.path.join(cdir, fn), open_findings)
        for x in unknown:
            violations.append((sig(x), os.path.join("corpus", fn)))
    # 3. property-specific deterministic part (enumerations etc.)
    extra = {}
    if hasattr(mod, "deterministic"):
        extra = mod.deterministic(a.tier, seed, open_findings) or {}
        for v in extra.pop("violations", []):
            path = write_replay(prop_id, a.tier, seed, v)
            violations.append((sig(v["failures"][0]), path))

    # 4. generated search
    total = a.n or mod.BUDGET[a.tier]
    budget_s = float(os.environ.get("VERIF_BUDGET_S", mod.WALL.get(a.tier, 600) if hasattr(mod, "WALL") else (240 if a.tier == "quick" else 3000)))
    shards = max(1, min(a.shards, total))
    per = max(1, total // shards)
    jobs = [(prop_id, a.tier, seed, i, per, a.survey, budget_s, opts) for i in range(shards)]
    if total > 0:
        if shards == 1:
            results = [run_shard(jobs[0])]
        else:
            ctx = mp.get_context("fork")
            with ctx.Pool(shards) as pool:
                results = pool.map(run_shard, jobs, chunksize=1)
    else:
        results = []
    for r in results:
        if "harness_error" in r:
            raise HarnessError(r["harness_error"])
    merged = {
        "evaluations": sum(r["evaluations"] for r in results),
        "inconclusive": sum(r["inconclusive"] for r in results),
        "refusals": sum(r["refusals"] for r in results),
        "budget_hit": any(r["budget_hit"] for r in results),
    }
    nontrivial = set()
    labels, excluded, notes = collections.Counter(), collections.Counter(), collections.Counter()
    samples = []
    for r in results:
        nontrivial.update(r["nontrivial"])
        labels.update(r["labels"])
        excluded.update(r["excluded_known"])
        notes.update(r["notes"])
        samples.extend(r["samples"][:1])
    seen = set()
    for r in results:
        v = r["violation"]
        if v is None:
            continue
        s = sig(v["failures"][0])
        if s in seen:
            continue
        seen.add(s)
        path = write_replay(prop_id, a.tier, seed, v)
        violations.append((s, path))

    # 4b. coverage-guided campaign (thorough tier of the properties that declare FUZZ_SECONDS): the same Hypothesis
    #     property driven by Atheris/libFuzzer with branch coverage of cola/ as feedback, 8 parallel processes
    fuzz_cov = None
    fuzz_secs = int(os.environ.get("VERIF_FUZZ_SECONDS", getattr(mod, "FUZZ_SECONDS", 0) if a.tier == "thorough" else 0))
    if fuzz_secs > 0 and not a.survey and not a.n:
        fuzz_cov = run_fuzz(prop_id, a.tier, seed, fuzz_secs, violations)

    if a.survey:
        surv = {}
        for r in results:
            for s, rec in r["survey"].items():
                cur = surv.get(s)
                if cur is None:
                    surv[s] = rec
                else:
                    cnt = cur["count"] + rec["count"]
                    if rec["len"] < cur["len"]:
                        surv[s] = rec
                    surv[s]["count"] = cnt
        os.makedirs(os.path.join(ROOT, "replays"), exist_ok=True)
        print(f"SURVEY {prop_id}: {merged['evaluations']} cases, {len(surv)} unknown signatures")
        for s, rec in sorted(surv.items(), key=lambda kv: -kv[1]["count"]):
            path = write_replay(prop_id, a.tier, seed, {"case": rec["case"], "failures": [rec["failure"]]}, tag="_survey")
            print(f"  {rec['count']:6d}  {s}   [{path}]  {rec['failure']['detail'][:160]}")

    # evidence
    ev_samples = samples[:6] + extra.pop("samples", [])
    coverage = {
        "evaluations": merged["evaluations"] + extra.pop("evaluations", 0) + corpus_n + len(open_findings),
        "distinct_nontrivial": len(nontrivial) + extra.pop("distinct_nontrivial", 0),
        "rule": mod.RULE,
        "samples": ev_samples,
        "labels": dict(sorted(labels.items(), key=lambda kv: -kv[1])[:150]),
        "excluded_known": dict(excluded),
        "known_findings_reproduced": known_status,
        "inconclusive": merged["inconclusive"],
        "refusals": merged["refusals"],
        "uncategorised": dict(sorted(notes.items(), key=lambda kv: -kv[1])[:40]),
        "corpus_replayed": corpus_n,
        "budget_hit": merged["budget_hit"],
        "shards": shards,
        "cola_commit": cola_commit(),
        "avoided_constructs": sorted({k for f in open_findings for k in f.get("avoid", [])}),
    }
    coverage.update(extra)
    if fuzz_cov is not None:
        coverage["coverage_guided"] = fuzz_cov
        coverage["evaluations"] += fuzz_cov.get("evaluations", 0)
    evidence = {
        "property_id": prop_id, "tier": a.tier, "seed": seed, "level": getattr(mod, "LEVEL", "exploration"),
        "coverage": coverage, "assumptions": list(getattr(mod, "ASSUMPTIONS", [])),
        "wall_s": round(time.time() - t0, 2), "violations": len(violations),
    }
    min_cases = getattr(mod, "MIN_CASES", {}).get(a.tier, 1) if not a.n else 1
    os.makedirs(os.path.join(ROOT, "evidence"), exist_ok=True)
    scratch = a.survey or a.n or os.environ.get("VERIF_COLA_PATH")  # exploratory / mutation runs never touch evidence
    if not scratch:
        with open(os.path.join(ROOT, "evidence", f"{prop_id}.json"), "w") as fh:
            json.dump(evidence, fh, indent=1, sort_keys=True, default=str)
    print(f"{prop_id} tier={a.tier} seed={seed}: {coverage['evaluations']} cases, "
          f"{coverage['distinct_nontrivial']} distinct non-trivial, excluded_known={dict(excluded)}, "
          f"inconclusive={merged['inconclusive']}, refusals={merged['refusals']}, "
          f"budget_hit={merged['budget_hit']}, wall={evidence['wall_s']}s")
    if violations:
        for s, path in violations:
            print(f"VIOLATION property={prop_id} replay={path}   # {s}")
        return 1
    if merged["evaluations"] < min_cases and not a.survey:
        raise HarnessError(f"only {merged['evaluations']} cases executed (< {min_cases}); inconclusive")
    return 0


if __name__ == "__main__":
    sys.exit(main())
