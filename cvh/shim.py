"""NumPy backend shim (DESIGN 3.1): supplies vmap / linear_transpose / sparse_csr / to_np /
jvp_derivs / vjp_derivs / grad for cola's numpy backend, harness side only."""
import numpy as np
import scipy.sparse as sp


def _np_fns():
    from cola.backends import np_fns
    return np_fns


def vmap(fun, in_axes=0, out_axes=0):
    assert in_axes == 0 and out_axes == 0, "shim vmap only maps axis 0"
    np_fns = _np_fns()

    def mapped(*args):
        leaves, treedef = np_fns.tree_flatten(args)
        pos = [i for i, l in enumerate(leaves) if isinstance(l, np.ndarray) and l.ndim >= 1]
        assert pos, "vmap needs an array leaf"
        b = leaves[pos[0]].shape[0]
        outs = []
        for j in range(b):
            lj = [l[j] if i in pos else l for i, l in enumerate(leaves)]
            outs.append(fun(*np_fns.tree_unflatten(treedef, lj)))
        if b == 0:
            # empty batch: learn the output structure from one evaluation on zeros, return empty stacks
            lz = [np.zeros(l.shape[1:], dtype=l.dtype) if i in pos else l for i, l in enumerate(leaves)]
            o = fun(*np_fns.tree_unflatten(treedef, lz))
            ol, ot = np_fns.tree_flatten(o)
            return np_fns.tree_unflatten(ot, [np.zeros((0, ) + np.asarray(x).shape, dtype=np.asarray(x).dtype) for x in ol])
        oleaves = [np_fns.tree_flatten(o)[0] for o in outs]
        otree = np_fns.tree_flatten(outs[0])[1]
        stacked = [np.stack([np.asarray(ol[i]) for ol in oleaves]) for i in range(len(oleaves[0]))]
        return np_fns.tree_unflatten(otree, stacked)

    return mapped


def linear_transpose(fun, primals, duals):
    d = primals.shape[0]
    dt = np.promote_types(primals.dtype, duals.dtype)
    M = fun(np.eye(d, dtype=dt))
    return M.T @ duals


def sparse_csr(row_pointers, indices, data, shape):
    return sp.csr_array((data, indices, row_pointers), shape=shape)


def to_np(x):
    return np.asarray(x)


def jvp_derivs(fun, primals, tangents, create_graph=True):
    return fun.jvp(primals[0], tangents[0])


def vjp_derivs(fun, primals, duals, create_graph=True):
    return (fun.vjp(primals[0], duals), )


def grad(fun):
    return fun.grad()


_INSTALLED = False


def install():
    global _INSTALLED
    np_fns = _np_fns()
    np_fns.vmap = vmap
    np_fns.linear_transpose = linear_transpose
    np_fns.sparse_csr = sparse_csr
    np_fns.to_np = to_np
    np_fns.jvp_derivs = jvp_derivs
    np_fns.vjp_derivs = vjp_derivs
    np_fns.grad = grad
    _INSTALLED = True


def selftest():
    """Compare the shim with explicit loops / explicit transposes. Raises on mismatch."""
    rng = np.random.default_rng(0)
    X = rng.integers(-3, 4, size=(4, 3)).astype(np.float64)
    f = lambda v: np.array([v.sum(), (v * v).sum()])
    out = vmap(f)(X)
    ref = np.stack([f(X[i]) for i in range(4)])
    assert np.array_equal(out, ref), "vmap(single)"
    g = lambda t: (t[0] * 2, t[0].sum())
    o1, o2 = vmap(g)((X, ))
    assert np.array_equal(o1, 2 * X) and np.array_equal(o2, X.sum(1)), "vmap(pytree)"
    M = rng.integers(-3, 4, size=(5, 3)).astype(np.float64)
    D = rng.integers(-3, 4, size=(5, 2)).astype(np.float64)
    lt = linear_transpose(lambda V: M @ V, np.zeros((3, 2)), D)
    assert np.array_equal(lt, M.T @ D), "linear_transpose"
    Mc = M + 1j * rng.integers(-3, 4, size=(5, 3))
    lt = linear_transpose(lambda V: Mc @ V, np.zeros((3, 2)), D)
    assert np.array_equal(lt, Mc.T @ D), "linear_transpose complex"
    A = sparse_csr(np.array([0, 1, 3]), np.array([1, 0, 2]), np.array([5., 6., 7.]), (2, 3))
    assert np.array_equal(A.toarray(), np.array([[0, 5., 0], [6., 0, 7.]])), "sparse_csr"
    return True
