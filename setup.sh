#!/bin/bash
# offline setup: make sure hypothesis is importable in /venv, run harness self-tests
cd "$(dirname "$0")"
export PIP_NO_INDEX=1
/venv/bin/python -c "import hypothesis" 2>/dev/null || /venv/bin/pip install --no-index --find-links /opt/veriftools/wheels hypothesis || exit 1
export PYTHONPATH="$PWD" PYTHONDONTWRITEBYTECODE=1
/venv/bin/python - <<'PY' || exit 1
import sys
sys.path.insert(0, "/repo")
from cvh import runner
runner.setup_cola()
from cvh import shim, ir
shim.selftest(); ir.selftest()
print("cvh setup ok")
PY
