#!/bin/bash
# offline setup: hypothesis present in /venv, atheris into .deps (coverage-guided thorough campaigns), harness self-tests
cd "$(dirname "$0")"
export PIP_NO_INDEX=1
/venv/bin/python -c "import hypothesis" 2>/dev/null || /venv/bin/pip install --no-index --find-links /opt/veriftools/wheels hypothesis || exit 1
if ! PYTHONPATH="$PWD/.deps" /venv/bin/python -c "import atheris" 2>/dev/null; then
  /venv/bin/pip install -q --no-index --find-links /opt/veriftools/wheels --target "$PWD/.deps" atheris || echo "WARNING: atheris not installed; the coverage-guided part of the thorough tier will be skipped"
fi
export PYTHONPATH="$PWD" PYTHONDONTWRITEBYTECODE=1
/venv/bin/python - <<'PY' || exit 1
import sys
sys.path.insert(0, "/repo")
from cvh import runner
runner.setup_cola()
from cvh import shim, ir
shim.selftest(); ir.selftest()
print("cvh setup ok")
PY
